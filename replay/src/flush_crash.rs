//! Unit `flush_crash` (C12): the store image at EVERY instant of StreamingPersistence::flush, on the real code.
//! A fault-injecting object store (FaultStore) fails or kills the process at a chosen call with every outcome the ObjectStore
//! assumptions of the unit allow:
//!     put     not applied | applied but reported failed | a strict PREFIX of the data stored (torn write), then Err / death
//!     rename  not applied | applied but reported failed | destination replaced and the source still there, then Err / death
//!     get     Err (Other / TimedOut)
//! and, from INSIDE the store - right after every mutating call whatever its outcome, i.e. on every intermediate image - runs
//!   (I1) RecoveryManager::recover on the bare image: must succeed (no missing / torn object is referenced, the manifest parses);
//!        it returns every update of every flush that reported Ok so far, and only updates that were pushed;
//!   (I2) every segment the manifest listed when the current flush started is still listed, with byte-identical objects;
//!   (I3) before every put: the target key is not listed by the manifest the store holds at that instant.
//! A failed flush is retried with MORE updates in the buffer (so the retry writes different bytes under the orphan's key); after a
//! death the process "restarts" (new StreamingPersistence on the same store, buffer gone) and goes on flushing.
use crate::deltas::{delta_id, gen_delta_auto, show_delta};
use crate::rng::Rng;
use crate::Found;
use redis_sim::replication::state::ReplicationDelta;
use redis_sim::streaming::{InMemoryObjectStore, ListResult, Manifest, ManifestManager, ObjectMeta, ObjectStore, RecoveryManager, StreamingPersistence, WriteBufferConfig};
use std::collections::HashSet;
use std::future::Future;
use std::io::{Error as IoError, ErrorKind, Result as IoResult};
use std::pin::Pin;
use std::sync::{Arc, Mutex};

const PREFIX: &str = "t";
const MKEY: &str = "t/manifest.json";

#[derive(Clone, Copy, PartialEq, Debug)]
enum Effect { NotApplied, Applied, Half }
#[derive(Clone, Copy, Debug)]
struct Fault { at: u64, effect: Effect, die: bool, torn: usize }

#[derive(Default)]
struct Shared {
    calls: u64, faults: Vec<Fault>, dead: bool, log: Vec<String>,
    confirmed: Vec<ReplicationDelta>, accepted: HashSet<String>,
    entry: Vec<(String, Vec<u8>)>,           // (key, bytes) of every segment listed when the current flush started
    violation: Option<(String, String, String)>, // (when, observed, required)
}
#[derive(Clone)]
struct FaultStore { inner: InMemoryObjectStore, sh: Arc<Mutex<Shared>> }
enum Verdict { Pass, Fail(Effect, usize) }

fn injected() -> IoError { IoError::new(ErrorKind::Other, "injected failure") }
fn torn_len(sel: usize, len: usize) -> usize { if len == 0 { 0 } else { match sel { 0 => 0, 1 => 1.min(len - 1), 2 => len / 2, 3 => len - 1, n => n % len } } }

impl FaultStore {
    fn new(inner: InMemoryObjectStore, faults: Vec<Fault>) -> Self { FaultStore { inner, sh: Arc::new(Mutex::new(Shared { faults, ..Default::default() })) } }
    fn verdict(&self, what: String) -> Verdict {
        let mut s = self.sh.lock().unwrap();
        let k = s.calls; s.calls += 1;
        if s.dead { s.log.push(format!("#{} {} -> (process dead)", k, what)); return Verdict::Fail(Effect::NotApplied, 0); }
        if let Some(f) = s.faults.iter().find(|f| f.at == k).cloned() {
            if f.die { s.dead = true; }
            s.log.push(format!("#{} {} -> {} ({})", k, what, if f.die { "process dies" } else { "Err" }, match f.effect { Effect::NotApplied => "not applied", Effect::Applied => "applied", Effect::Half => "half done: torn put / destination replaced with the source left behind" }));
            return Verdict::Fail(f.effect, f.torn);
        }
        s.log.push(format!("#{} {}", k, what));
        Verdict::Pass
    }
    fn note(&self, when: String, observed: String, required: String) { let mut s = self.sh.lock().unwrap(); if s.violation.is_none() { s.violation = Some((when, observed, required)); } }
    async fn manifest_now(&self) -> Option<Manifest> { ManifestManager::new(self.inner.clone(), PREFIX).load().await.ok() }
    /// (I3) before a put
    async fn check_put_target(&self, key: &str) {
        if key == MKEY { self.note(format!("put {}", key), "the manifest object is written in place".into(), "the manifest is replaced atomically (temp + rename)".into()); }
        if let Some(m) = self.manifest_now().await { if m.segments.iter().any(|s| s.key == key) || m.checkpoint.as_ref().map(|c| c.key == key).unwrap_or(false) {
            self.note(format!("put {}", key), format!("the manifest in the store (v{}, next id {}) lists {}", m.version, m.next_segment_id, key), "flush never puts over an object the manifest references".into());
        } }
    }
    /// (I1) + (I2) on the image as it is now
    async fn check_image(&self, when: String) {
        let (confirmed, accepted, entry) = { let s = self.sh.lock().unwrap(); (s.confirmed.clone(), s.accepted.clone(), s.entry.clone()) };
        let rm = RecoveryManager::new(self.inner.clone(), PREFIX, 1);
        match rm.recover().await {
            Err(e) => self.note(when.clone(), format!("RecoveryManager::recover failed: {}", e), "recovery succeeds on every intermediate store image (the manifest never references a missing or partially written object)".into()),
            Ok(st) => {
                let got: HashSet<String> = st.deltas.iter().map(delta_id).collect();
                if let Some(lost) = confirmed.iter().find(|d| !got.contains(&delta_id(d))) {
                    self.note(when.clone(), format!("{} updates recovered from {} segments; missing {}", st.deltas.len(), st.manifest.segments.len(), show_delta(lost)), format!("every update of every flush that reported success ({} so far) is recovered", confirmed.len()));
                }
                if let Some(alien) = st.deltas.iter().find(|d| !accepted.contains(&delta_id(d))) {
                    self.note(when.clone(), format!("recovered {}", show_delta(alien)), "only updates that were pushed".into());
                }
                for (k, bytes) in &entry {
                    let listed = st.manifest.segments.iter().any(|s| &s.key == k);
                    let same = self.inner.get(k).await.map(|b| &b == bytes).unwrap_or(false);
                    if !listed || !same { self.note(when.clone(), format!("segment {} listed at the start of this flush: still listed = {}, object unchanged = {}", k, listed, same), "flush only adds: every segment listed at entry stays listed with a byte-identical object".into()); }
                }
            }
        }
    }
    async fn begin_flush(&self) {
        let mut entry = Vec::new();
        if let Some(m) = self.manifest_now().await { for s in &m.segments { if let Ok(b) = self.inner.get(&s.key).await { entry.push((s.key.clone(), b)); } } }
        self.sh.lock().unwrap().entry = entry;
    }
}
impl ObjectStore for FaultStore {
    fn put<'a>(&'a self, key: &'a str, data: &'a [u8]) -> Pin<Box<dyn Future<Output = IoResult<()>> + Send + 'a>> {
        Box::pin(async move {
            let v = self.verdict(format!("put {} ({} bytes)", key, data.len()));
            if !matches!(v, Verdict::Fail(Effect::NotApplied, _)) || !self.sh.lock().unwrap().dead { self.check_put_target(key).await; }
            let r = match v {
                Verdict::Pass => self.inner.put(key, data).await,
                Verdict::Fail(Effect::NotApplied, _) => Err(injected()),
                Verdict::Fail(Effect::Applied, _) => { self.inner.put(key, data).await?; Err(injected()) }
                Verdict::Fail(Effect::Half, sel) => { self.inner.put(key, &data[..torn_len(sel, data.len())]).await?; Err(injected()) }
            };
            self.check_image(format!("right after `put {}` ({})", key, if r.is_ok() { "Ok" } else { "Err / death" })).await;
            r
        })
    }
    fn get<'a>(&'a self, key: &'a str) -> Pin<Box<dyn Future<Output = IoResult<Vec<u8>>> + Send + 'a>> {
        Box::pin(async move { match self.verdict(format!("get {}", key)) { Verdict::Pass => self.inner.get(key).await, Verdict::Fail(..) => Err(IoError::new(ErrorKind::TimedOut, "injected failure")) } })
    }
    fn exists<'a>(&'a self, key: &'a str) -> Pin<Box<dyn Future<Output = IoResult<bool>> + Send + 'a>> {
        Box::pin(async move { match self.verdict(format!("exists {}", key)) { Verdict::Pass => self.inner.exists(key).await, Verdict::Fail(..) => Err(injected()) } })
    }
    fn delete<'a>(&'a self, key: &'a str) -> Pin<Box<dyn Future<Output = IoResult<()>> + Send + 'a>> {
        Box::pin(async move {
            let r = match self.verdict(format!("delete {}", key)) { Verdict::Pass => self.inner.delete(key).await, Verdict::Fail(Effect::Applied, _) => { self.inner.delete(key).await?; Err(injected()) } Verdict::Fail(..) => Err(injected()) };
            self.check_image(format!("right after `delete {}`", key)).await;
            r
        })
    }
    fn list<'a>(&'a self, prefix: &'a str, token: Option<&'a str>) -> Pin<Box<dyn Future<Output = IoResult<ListResult>> + Send + 'a>> {
        Box::pin(async move { match self.verdict(format!("list {}", prefix)) { Verdict::Pass => self.inner.list(prefix, token).await, Verdict::Fail(..) => Err(injected()) } })
    }
    fn rename<'a>(&'a self, from: &'a str, to: &'a str) -> Pin<Box<dyn Future<Output = IoResult<()>> + Send + 'a>> {
        Box::pin(async move {
            let r = match self.verdict(format!("rename {} -> {}", from, to)) {
                Verdict::Pass => self.inner.rename(from, to).await,
                Verdict::Fail(Effect::NotApplied, _) => Err(injected()),
                Verdict::Fail(Effect::Applied, _) => { self.inner.rename(from, to).await?; Err(injected()) }
                Verdict::Fail(Effect::Half, _) => { let d = self.inner.get(from).await?; self.inner.put(to, &d).await?; Err(injected()) }
            };
            self.check_image(format!("right after `rename {} -> {}` ({})", from, to, if r.is_ok() { "Ok" } else { "Err / death" })).await;
            r
        })
    }
    fn head<'a>(&'a self, key: &'a str) -> Pin<Box<dyn Future<Output = IoResult<ObjectMeta>> + Send + 'a>> {
        Box::pin(async move { match self.verdict(format!("head {}", key)) { Verdict::Pass => self.inner.head(key).await, Verdict::Fail(..) => Err(injected()) } })
    }
}

fn mk_delta(rng: &mut Rng, i: u64) -> ReplicationDelta {
    let mut d = gen_delta_auto(rng, if i % 4 == 3 { 10 + i } else { i % 3 });
    d.key = format!("{}#{}", if d.key.len() > 30 { "long".to_string() } else { d.key.clone() }, i);
    d
}

/// rounds[i] = how many updates are pushed before the i-th flush.  Returns (finding, number of store calls made).
async fn run(rounds: &[usize], dseed: u64, faults: Vec<Fault>) -> (Option<Found>, u64) {
    let inner = InMemoryObjectStore::new();
    let fs = FaultStore::new(inner.clone(), faults.clone());
    let store = Arc::new(fs.clone());
    let mut rng = Rng::new(dseed);
    let mut trace: Vec<String> = Vec::new();
    let mut p = match StreamingPersistence::new(store.clone(), PREFIX.to_string(), 1, WriteBufferConfig::test()).await { Ok(p) => p, Err(_) => { fs.sh.lock().unwrap().dead = false; match StreamingPersistence::new(store.clone(), PREFIX.to_string(), 1, WriteBufferConfig::test()).await { Ok(p) => p, Err(_) => return (None, fs.sh.lock().unwrap().calls) } } };
    let mut pending: Vec<ReplicationDelta> = Vec::new();
    let mut i = 0u64;
    let mut found: Option<Found> = None;
    for (r, &n) in rounds.iter().enumerate() {
        for _ in 0..n { let d = mk_delta(&mut rng, i); i += 1; if p.push(d.clone()).is_ok() { fs.sh.lock().unwrap().accepted.insert(delta_id(&d)); pending.push(d); } }
        fs.begin_flush().await;
        let res = p.flush().await;
        trace.push(format!("round {}: push {} -> flush {}", r, n, match &res { Ok(x) => format!("Ok(flushed {})", x.deltas_flushed), Err(e) => format!("Err({})", e) }));
        match res {
            Ok(fr) => {
                if fr.deltas_flushed != pending.len() || p.pending_count() != 0 { found = Some(Found { input: String::new(), observed: format!("flush Ok(deltas_flushed={}), pending_count()=={}", fr.deltas_flushed, p.pending_count()), required: format!("deltas_flushed == {} and nothing pending", pending.len()) }); break; }
                fs.sh.lock().unwrap().confirmed.extend(pending.drain(..));
            }
            Err(_) => {
                let dead = fs.sh.lock().unwrap().dead;
                if dead {
                    // the process died inside this flush: restart on the same store; what was only buffered is gone (never confirmed)
                    trace.push("process restarts".into());
                    pending.clear();
                    fs.sh.lock().unwrap().dead = false;
                    fs.check_image("at restart after the death".into()).await;
                    // (a later injected fault may hit the start-up read, or kill the process again: start again - every fault fires once)
                    let mut started = None; let mut last = String::new();
                    for _ in 0..8 { match StreamingPersistence::new(store.clone(), PREFIX.to_string(), 1, WriteBufferConfig::test()).await { Ok(x) => { started = Some(x); break; } Err(e) => { last = e.to_string(); fs.sh.lock().unwrap().dead = false; } } }
                    p = match started { Some(x) => x, None => { found = Some(Found { input: String::new(), observed: format!("StreamingPersistence::new after the restart keeps failing: {}", last), required: "the store image left by a death inside flush is one the process can start from".into() }); break; } };
                } else if p.pending_count() != pending.len() {
                    found = Some(Found { input: String::new(), observed: format!("after the failed flush pending_count() == {}", p.pending_count()), required: format!("the {} accepted updates are still pending: a failed flush discards nothing", pending.len()) }); break;
                }
            }
        }
        fs.check_image(format!("after flush #{} returned", r)).await;
        if fs.sh.lock().unwrap().violation.is_some() { break; }
    }
    let s = fs.sh.lock().unwrap();
    let ctx = format!("StreamingPersistence over a fault-injecting object store; pushes before each flush {:?} (update generator seed {}); faults {:?}; {}; store calls: [{}]", rounds, dseed, faults, trace.join("; "), s.log.join(", "));
    if let Some((when, observed, required)) = s.violation.clone() { return (Some(Found { input: format!("{}; checked {}", ctx, when), observed, required }), s.calls); }
    if let Some(mut f) = found { f.input = ctx; return (Some(f), s.calls); }
    (None, s.calls)
}

pub fn search(_pid: &str, _oid: &str, seed: u64) -> Option<Found> {
    let rt = tokio::runtime::Builder::new_current_thread().enable_all().build().ok()?;
    redis_sim::buggify::set_config(redis_sim::buggify::FaultConfig::new());
    // ---- exhaustive: one fault at every call index, every effect, failing or fatal; torn writes at 4 cut points ----
    for rounds in [vec![2usize, 1, 3, 0, 2], vec![1, 1, 1, 1], vec![3, 2]] {
        let (f, total) = rt.block_on(run(&rounds, 1, vec![]));
        if f.is_some() { return f; }
        for k in 0..total { for die in [false, true] {
            for (effect, torns) in [(Effect::NotApplied, vec![0usize]), (Effect::Applied, vec![0]), (Effect::Half, vec![0, 1, 2, 3])] { for torn in torns {
                let (f, _) = rt.block_on(run(&rounds, 1, vec![Fault { at: k, effect, die, torn }]));
                if f.is_some() { return f; }
            } }
        } }
        // two faults: the retry / the restart is hit again
        for k in 0..total { for d in 1..5u64 { for (e1, e2) in [(Effect::Half, Effect::Half), (Effect::Applied, Effect::NotApplied), (Effect::NotApplied, Effect::Applied), (Effect::Half, Effect::Applied)] {
            let (f, _) = rt.block_on(run(&rounds, 1, vec![Fault { at: k, effect: e1, die: false, torn: 2 }, Fault { at: k + d, effect: e2, die: d % 2 == 0, torn: 3 }]));
            if f.is_some() { return f; }
        } } }
    }
    // ---- seeded random: up to 5 faults ----
    let mut rng = Rng::new(seed + 1212);
    for _ in 0..600u64 {
        let nr = 1 + rng.below(7) as usize;
        let rounds: Vec<usize> = (0..nr).map(|_| rng.below(5) as usize).collect();
        let nf = 1 + rng.below(5);
        let faults: Vec<Fault> = (0..nf).map(|_| Fault { at: rng.below(36), effect: *rng.pick(&[Effect::NotApplied, Effect::Applied, Effect::Half]), die: rng.chance(1, 3), torn: rng.below(9) as usize }).collect();
        let (f, _) = rt.block_on(run(&rounds, rng.next() % 1000, faults));
        if f.is_some() { return f; }
    }
    None
}
