//! Unit `stream_glue` (C12): the real WriteBuffer (src/streaming/write_buffer.rs) and the real StreamingIntegration
//! (start_workers -> sink -> bridge -> persistence actor -> shutdown), against the property
//!   "an update that was ACCEPTED is, at every quiescent point, either still pending or inside exactly one stored segment
//!    object of a flush that returned Ok":
//!   - sequential schedules over a scripted store (put fails / put applies and then fails) and over the real
//!     SimulatedObjectStore with put faults and timeouts: a flush that returns Ok(Some(key)) stored exactly what was pending,
//!     in order, under a key no earlier flush returned; Ok(None) only for an empty buffer; a failed flush keeps everything
//!     pending; a refused push (backpressure) changes nothing and says so; should_flush honours the count / age bounds and is
//!     false for an empty buffer; the flushed-counters count stored segments only;
//!   - OVERLAPPING schedules over a store whose put SUSPENDS (a gate inside put): two or three flushes of one Arc<WriteBuffer>
//!     are in flight at once, with pushes in between, and complete in any order, some failing: at every quiescent point
//!     #accepted = pending_count + #updates in the objects of the Ok flushes, no update in two objects, no two flushes
//!     returned one key, nothing stored that nobody pushed; a final clean flush stores the rest;
//!   - StreamingIntegration over a healthy store: everything sent into the sink before WorkerHandles::shutdown is returned by
//!     RecoveryManager::recover afterwards, exactly once; after shutdown the sink refuses and says so.
use crate::deltas::{delta_id, gen_delta_auto};
use crate::rng::Rng;
use crate::Found;
use redis_sim::buggify::FaultConfig;
use redis_sim::io::simulation::SimulatedRng;
use redis_sim::redis::SDS;
use redis_sim::replication::lattice::{LamportClock, ReplicaId};
use redis_sim::replication::state::{ReplicatedValue, ReplicationDelta};
use redis_sim::streaming::{InMemoryObjectStore, ListResult, ObjectMeta, ObjectStore, RecoveryManager, SegmentReader, SimulatedObjectStore, SimulatedStoreConfig, StreamingConfig, StreamingIntegration, WriteBuffer, WriteBufferConfig, WriteBufferError};
use std::collections::{BTreeMap, BTreeSet, VecDeque};
use std::future::Future;
use std::io::{Error as IoError, ErrorKind, Result as IoResult};
use std::pin::Pin;
use std::sync::{Arc, Mutex};
use std::time::Duration;
use tokio::sync::Notify;

// ---------------- a store whose put follows a plan and can be held at a gate ----------------
#[derive(Clone, Copy, PartialEq, Debug)]
enum Plan { Pass, Fail, FailApplied }

#[derive(Default)]
struct GateState { calls: u64, plans: VecDeque<(Plan, bool)>, gates: BTreeMap<u64, Arc<Notify>>, log: Vec<String> }

#[derive(Clone)]
struct GateStore { inner: InMemoryObjectStore, st: Arc<Mutex<GateState>> }

impl GateStore {
    fn new(inner: InMemoryObjectStore) -> Self { GateStore { inner, st: Arc::new(Mutex::new(GateState::default())) } }
    fn plan_next(&self, p: Plan, suspend: bool) { self.st.lock().unwrap().plans.push_back((p, suspend)); }
    fn held(&self) -> Vec<u64> { self.st.lock().unwrap().gates.keys().cloned().collect() }
    fn release(&self, k: u64) { let g = self.st.lock().unwrap().gates.remove(&k); if let Some(g) = g { g.notify_one(); } }
    fn log(&self) -> String { self.st.lock().unwrap().log.join(", ") }
    fn note(&self, s: String) { self.st.lock().unwrap().log.push(s); }
}

fn injected() -> IoError { IoError::new(ErrorKind::Other, "injected put failure") }

impl ObjectStore for GateStore {
    fn put<'a>(&'a self, key: &'a str, data: &'a [u8]) -> Pin<Box<dyn Future<Output = IoResult<()>> + Send + 'a>> {
        Box::pin(async move {
            let (k, plan, gate) = {
                let mut s = self.st.lock().unwrap();
                let k = s.calls; s.calls += 1;
                let (plan, susp) = s.plans.pop_front().unwrap_or((Plan::Pass, false));
                let gate = if susp { let n = Arc::new(Notify::new()); s.gates.insert(k, n.clone()); Some(n) } else { None };
                s.log.push(format!("put#{} {}{}", k, key, if susp { " SUSPENDS" } else { "" }));
                (k, plan, gate)
            };
            if let Some(g) = gate { g.notified().await; }
            let r = match plan {
                Plan::Pass => self.inner.put(key, data).await,
                Plan::Fail => Err(injected()),
                Plan::FailApplied => { self.inner.put(key, data).await?; Err(injected()) }
            };
            self.note(format!("put#{} -> {}", k, match plan { Plan::Pass => "Ok", Plan::Fail => "Err (nothing stored)", Plan::FailApplied => "Err (object stored)" }));
            r
        })
    }
    fn get<'a>(&'a self, key: &'a str) -> Pin<Box<dyn Future<Output = IoResult<Vec<u8>>> + Send + 'a>> { self.inner.get(key) }
    fn exists<'a>(&'a self, key: &'a str) -> Pin<Box<dyn Future<Output = IoResult<bool>> + Send + 'a>> { self.inner.exists(key) }
    fn delete<'a>(&'a self, key: &'a str) -> Pin<Box<dyn Future<Output = IoResult<()>> + Send + 'a>> { self.inner.delete(key) }
    fn list<'a>(&'a self, prefix: &'a str, token: Option<&'a str>) -> Pin<Box<dyn Future<Output = IoResult<ListResult>> + Send + 'a>> { self.inner.list(prefix, token) }
    fn rename<'a>(&'a self, from: &'a str, to: &'a str) -> Pin<Box<dyn Future<Output = IoResult<()>> + Send + 'a>> { self.inner.rename(from, to) }
    fn head<'a>(&'a self, key: &'a str) -> Pin<Box<dyn Future<Output = IoResult<ObjectMeta>> + Send + 'a>> { self.inner.head(key) }
}

// ---------------- updates ----------------
fn mk_delta(rng: &mut Rng, i: usize) -> ReplicationDelta {
    let mut d = gen_delta_auto(rng, if i % 5 == 4 { 10 + i as u64 } else { (i % 3) as u64 });
    d.key = format!("u{}", i);
    d
}
fn name(id: &str) -> String { id.split('|').next().unwrap_or("").to_string() }
fn names(ids: &[String]) -> String { format!("[{}]", ids.iter().map(|s| name(s)).collect::<Vec<_>>().join(", ")) }

/// the updates inside the object stored under `key` (read from the bare store), or why it cannot be read
async fn read_segment(inner: &InMemoryObjectStore, key: &str) -> Result<Vec<String>, String> {
    let data = inner.get(key).await.map_err(|e| format!("no object under {} ({})", key, e))?;
    let rd = SegmentReader::open(&data).map_err(|e| format!("the object under {} is not a segment: {}", key, e))?;
    rd.validate().map_err(|e| format!("the object under {} does not validate: {}", key, e))?;
    let ds = rd.read_all().map_err(|e| format!("the object under {} cannot be decoded: {}", key, e))?;
    Ok(ds.iter().map(delta_id).collect())
}

fn werr(e: &WriteBufferError) -> String { format!("{}", e) }

// ---------------- sequential schedules: exact model ----------------
/// `rounds[i]` updates are pushed before the i-th flush; the model is the list of pending updates
async fn sequential<S: ObjectStore>(store: Arc<S>, inner: InMemoryObjectStore, cfg: WriteBufferConfig, rounds: &[usize], dseed: u64, before_flush: &dyn Fn(usize), describe: &dyn Fn() -> String) -> Option<Found> {
    let buf = WriteBuffer::new(store, "wb".to_string(), cfg.clone());
    let mut rng = Rng::new(dseed);
    let mut pending: Vec<String> = Vec::new();
    let mut accepted: Vec<String> = Vec::new();
    let mut stored: Vec<String> = Vec::new();
    let mut keys: Vec<String> = Vec::new();
    let mut trace: Vec<String> = Vec::new();
    let mut n = 0usize;
    let total_rounds = rounds.len() + 60;
    for round in 0..total_rounds {
        let closing = round >= rounds.len();
        if closing && pending.is_empty() { break; }
        for _ in 0..(if closing { 0 } else { rounds[round] }) {
            let d = mk_delta(&mut rng, n); n += 1;
            let id = delta_id(&d);
            let before = buf.pending_count();
            match buf.push(d) {
                Ok(()) => { pending.push(id.clone()); accepted.push(id.clone()); trace.push(format!("push {} -> Ok", name(&id))); }
                Err(e) => {
                    trace.push(format!("push {} -> Err({})", name(&id), werr(&e)));
                    if !matches!(e, WriteBufferError::BackpressureExceeded { .. }) || buf.pending_bytes() < cfg.backpressure_threshold_bytes {
                        return Some(Found { input: format!("{}; {}", describe(), trace.join("; ")), observed: format!("push refused with {} while {} bytes are pending", werr(&e), buf.pending_bytes()), required: format!("a push is refused only for backpressure: pending bytes at or above the threshold {}", cfg.backpressure_threshold_bytes) });
                    }
                }
            }
            if buf.pending_count() != pending.len() || buf.stats().buffered_deltas != pending.len() {
                return Some(Found { input: format!("{}; {}", describe(), trace.join("; ")), observed: format!("pending_count() = {} (was {}), stats().buffered_deltas = {}", buf.pending_count(), before, buf.stats().buffered_deltas), required: format!("{}: an accepted update is appended once, a refused one changes nothing; pending are {}", pending.len(), names(&pending)) });
            }
        }
        // should_flush: never for an empty buffer; always at the count bound or with a zero flush interval
        let sf = buf.should_flush();
        if pending.is_empty() && sf { return Some(Found { input: format!("{}; {}", describe(), trace.join("; ")), observed: "should_flush() = true on an empty buffer".into(), required: "false".into() }); }
        if !pending.is_empty() && (pending.len() >= cfg.max_deltas || cfg.flush_interval == Duration::ZERO) && !sf {
            return Some(Found { input: format!("{}; {}", describe(), trace.join("; ")), observed: format!("should_flush() = false with {} updates pending", pending.len()), required: format!("true: the count bound is {} and the flush interval is {:?}", cfg.max_deltas, cfg.flush_interval) });
        }
        before_flush(round);
        let r = buf.flush().await;
        match r {
            Ok(None) => {
                trace.push("flush -> Ok(None)".into());
                if !pending.is_empty() { return Some(Found { input: format!("{}; {}", describe(), trace.join("; ")), observed: format!("flush returned Ok(None); pending_count() = {}", buf.pending_count()), required: format!("the pending updates {} are stored (Ok(Some(key))) or the flush fails", names(&pending)) }); }
            }
            Ok(Some(key)) => {
                trace.push(format!("flush -> Ok({})", key));
                if pending.is_empty() { return Some(Found { input: format!("{}; {}", describe(), trace.join("; ")), observed: format!("flush of an empty buffer returned the key {}", key), required: "Ok(None): nothing to store".into() }); }
                if keys.contains(&key) { return Some(Found { input: format!("{}; {}", describe(), trace.join("; ")), observed: format!("the key {} was returned by an earlier flush too", key), required: "every flush stores its updates under a key of its own (the earlier object must not be overwritten)".into() }); }
                match read_segment(&inner, &key).await {
                    Err(why) => return Some(Found { input: format!("{}; {}", describe(), trace.join("; ")), observed: why, required: format!("the flush returned Ok: the object holds {}", names(&pending)) }),
                    Ok(ids) => if ids != pending { return Some(Found { input: format!("{}; {}", describe(), trace.join("; ")), observed: format!("the object under {} holds {}", key, names(&ids)), required: format!("exactly what was pending, in order, once: {}", names(&pending)) }); }
                }
                keys.push(key);
                stored.extend(pending.drain(..));
            }
            Err(e) => { trace.push(format!("flush -> Err({})", werr(&e))); }
        }
        if buf.pending_count() != pending.len() || buf.stats().buffered_deltas != pending.len() || (pending.is_empty() && buf.pending_bytes() != 0) {
            return Some(Found { input: format!("{}; {}", describe(), trace.join("; ")), observed: format!("after the flush pending_count() = {}, stats().buffered_deltas = {}, pending_bytes() = {}", buf.pending_count(), buf.stats().buffered_deltas, buf.pending_bytes()), required: format!("{} pending ({}): a flush that fails keeps every accepted update, a flush that succeeds leaves none", pending.len(), names(&pending)) });
        }
        let st = buf.stats();
        if st.total_deltas_flushed != stored.len() as u64 || st.total_segments_written != keys.len() as u64 {
            return Some(Found { input: format!("{}; {}", describe(), trace.join("; ")), observed: format!("stats: total_deltas_flushed = {}, total_segments_written = {}", st.total_deltas_flushed, st.total_segments_written), required: format!("{} updates in {} segments: only what a successful flush stored counts as flushed", stored.len(), keys.len()) });
        }
    }
    // the earlier objects are still what they were (nothing overwritten later)
    let mut all: Vec<String> = Vec::new();
    for k in &keys { match read_segment(&inner, k).await { Ok(ids) => all.extend(ids), Err(why) => return Some(Found { input: format!("{}; {}", describe(), trace.join("; ")), observed: why, required: "every object of a successful flush stays readable".into() }) } }
    if pending.is_empty() && all != accepted {
        return Some(Found { input: format!("{}; {}", describe(), trace.join("; ")), observed: format!("the objects of the successful flushes hold {}", names(&all)), required: format!("every accepted update exactly once, in the order accepted: {}", names(&accepted)) });
    }
    None
}

// ---------------- overlapping schedules ----------------
type FlushResult = Result<Option<String>, String>;

struct Overlap {
    buf: Arc<WriteBuffer<GateStore>>, store: GateStore, inner: InMemoryObjectStore,
    accepted: Vec<String>, ok_keys: Vec<(usize, String)>, inflight: Vec<(usize, tokio::task::JoinHandle<FlushResult>)>,
    trace: Vec<String>, flushes: usize, what: String,
}

impl Overlap {
    fn input(&self) -> String { format!("{}; events: {}; store calls: [{}]", self.what, self.trace.join("; "), self.store.log()) }
    async fn settle(&mut self) -> Option<Found> {
        for _ in 0..12 { tokio::task::yield_now().await; }
        let mut still = Vec::new();
        for (no, h) in std::mem::take(&mut self.inflight) {
            if !h.is_finished() { still.push((no, h)); continue; }
            match h.await {
                Err(e) => return Some(Found { input: self.input(), observed: format!("flush#{} panicked: {}", no, e), required: "the flush returns".into() }),
                Ok(Ok(Some(key))) => { self.trace.push(format!("flush#{} -> Ok({})", no, key)); self.ok_keys.push((no, key)); }
                Ok(Ok(None)) => self.trace.push(format!("flush#{} -> Ok(None)", no)),
                Ok(Err(e)) => self.trace.push(format!("flush#{} -> Err({})", no, e)),
            }
        }
        self.inflight = still;
        None
    }
    /// no flush in flight: every accepted update is pending or in exactly one object of a flush that returned Ok
    async fn quiescent(&self, last: bool) -> Option<Found> {
        let mut seen: BTreeSet<&String> = BTreeSet::new();
        for (no, k) in &self.ok_keys { if !seen.insert(k) {
            let other = self.ok_keys.iter().find(|(n2, k2)| k2 == k && n2 != no).map(|(n2, _)| *n2).unwrap_or(0);
            return Some(Found { input: self.input(), observed: format!("flush#{} and flush#{} both returned the key {}", other, no, k), required: "no two flushes store under one key (the second put overwrites the first object: its updates are gone)".into() });
        } }
        let mut count: BTreeMap<String, Vec<String>> = BTreeMap::new();
        for (no, k) in &self.ok_keys {
            match read_segment(&self.inner, k).await {
                Err(why) => return Some(Found { input: self.input(), observed: why, required: format!("flush#{} returned Ok({}): its updates are in that object", no, k) }),
                Ok(ids) => for id in ids {
                    if !self.accepted.contains(&id) { return Some(Found { input: self.input(), observed: format!("the object {} holds {}", k, id), required: "only updates that were pushed are stored".into() }); }
                    count.entry(id).or_default().push(k.clone());
                }
            }
        }
        if let Some((id, ks)) = count.iter().find(|(_, ks)| ks.len() > 1) {
            return Some(Found { input: self.input(), observed: format!("the update {} is in the objects {:?}", name(id), ks), required: "an accepted update is inside exactly one object of a successful flush".into() });
        }
        let unstored: Vec<String> = self.accepted.iter().filter(|id| !count.contains_key(*id)).cloned().collect();
        let pc = self.buf.pending_count();
        if pc != unstored.len() || self.buf.stats().buffered_deltas != pc {
            return Some(Found { input: self.input(), observed: format!("no flush in flight; pending_count() = {}, stats().buffered_deltas = {}; the objects of the successful flushes hold {} of the {} accepted updates; in no such object: {}", pc, self.buf.stats().buffered_deltas, count.len(), self.accepted.len(), names(&unstored)), required: format!("pending_count() = {}: every accepted update is either still pending or inside exactly one object of a flush that returned Ok (a failed flush keeps its updates pending, whatever else was in flight)", unstored.len()) });
        }
        let st = self.buf.stats();
        if st.total_deltas_flushed != count.len() as u64 || st.total_segments_written != self.ok_keys.len() as u64 {
            return Some(Found { input: self.input(), observed: format!("stats: total_deltas_flushed = {}, total_segments_written = {}", st.total_deltas_flushed, st.total_segments_written), required: format!("{} updates in {} segments", count.len(), self.ok_keys.len()) });
        }
        if last && !unstored.is_empty() {
            return Some(Found { input: self.input(), observed: format!("after a final clean flush these updates are in no object: {}", names(&unstored)), required: "a clean flush stores everything pending".into() });
        }
        None
    }
    fn start_flush(&mut self, plan: Plan, suspend: bool) {
        let no = self.flushes; self.flushes += 1;
        self.store.plan_next(plan, suspend);
        self.trace.push(format!("flush#{} starts (its put: {:?}{})", no, plan, if suspend { ", suspended until released" } else { "" }));
        let b = self.buf.clone();
        self.inflight.push((no, tokio::spawn(async move { b.flush().await.map_err(|e| werr(&e)) })));
    }
    fn push(&mut self, rng: &mut Rng) -> Option<Found> {
        let d = mk_delta(rng, self.accepted.len());
        let id = delta_id(&d);
        match self.buf.push(d) {
            Ok(()) => { self.trace.push(format!("push {}", name(&id))); self.accepted.push(id); None }
            Err(e) => Some(Found { input: self.input(), observed: format!("push refused: {}", werr(&e)), required: "accepted (the backpressure threshold is far away)".into() }),
        }
    }
}

#[derive(Clone, Debug)]
enum Ev { Push, Flush(Plan, bool), Release(usize) }

async fn overlapping(events: &[Ev], dseed: u64) -> Option<Found> {
    let inner = InMemoryObjectStore::new();
    let store = GateStore::new(inner.clone());
    let cfg = WriteBufferConfig { flush_interval: Duration::from_secs(3600), max_size_bytes: 1 << 30, max_deltas: 1 << 20, backpressure_threshold_bytes: 1 << 30, compression_enabled: false };
    let buf = Arc::new(WriteBuffer::new(Arc::new(store.clone()), "wb".to_string(), cfg));
    let mut o = Overlap { buf, store, inner, accepted: Vec::new(), ok_keys: Vec::new(), inflight: Vec::new(), trace: Vec::new(), flushes: 0, what: "one Arc<WriteBuffer> over a store whose put can be held at a gate (flushes run as tasks of one thread)".into() };
    let mut rng = Rng::new(dseed);
    for ev in events {
        match ev {
            Ev::Push => { if let Some(f) = o.push(&mut rng) { return Some(f); } }
            Ev::Flush(p, s) => { if o.inflight.len() < 3 { o.start_flush(*p, *s); } }
            Ev::Release(i) => { let h = o.store.held(); if !h.is_empty() { let k = h[*i % h.len()]; o.trace.push(format!("release put#{}", k)); o.store.release(k); } }
        }
        if let Some(f) = o.settle().await { return Some(f); }
        if o.inflight.is_empty() { if let Some(f) = o.quiescent(false).await { return Some(f); } }
    }
    // let everything finish (oldest gate first), then one clean flush
    for _ in 0..8 {
        for k in o.store.held() { o.trace.push(format!("release put#{}", k)); o.store.release(k); if let Some(f) = o.settle().await { return Some(f); } }
        if o.inflight.is_empty() { break; }
        if let Some(f) = o.settle().await { return Some(f); }
    }
    if !o.inflight.is_empty() { return Some(Found { input: o.input(), observed: format!("{} flushes never returned although every put was released", o.inflight.len()), required: "every flush returns".into() }); }
    if let Some(f) = o.quiescent(false).await { return Some(f); }
    { let mut st = o.store.st.lock().unwrap(); st.plans.clear(); }
    o.start_flush(Plan::Pass, false);
    if let Some(f) = o.settle().await { return Some(f); }
    if !o.inflight.is_empty() { return Some(Found { input: o.input(), observed: "the final flush did not return".into(), required: "it returns".into() }); }
    o.quiescent(true).await
}

// ---------------- StreamingIntegration: sink -> bridge -> actor -> shutdown ----------------
fn plain_delta(i: usize, r: u64) -> ReplicationDelta {
    let v = ReplicatedValue::with_value(SDS::from_str(&format!("value-{}", i)), LamportClock { time: 10 + i as u64, replica_id: ReplicaId(r) });
    ReplicationDelta::new(format!("i{}", i), v, ReplicaId(r))
}

async fn integration(rng: &mut Rng, with_compactor: bool) -> Option<Found> {
    let inner = InMemoryObjectStore::new();
    let mut cfg = StreamingConfig::test();
    cfg.prefix = "it".into();
    cfg.write_buffer.max_deltas = *rng.pick(&[1usize, 3, 7, 100]);
    cfg.write_buffer.flush_interval = Duration::from_millis(*rng.pick(&[5u64, 20, 50, 10_000]));
    if !with_compactor { cfg.compaction.max_segments = 0; }
    let integ = StreamingIntegration::with_store(Arc::new(inner.clone()), cfg.clone(), 1);
    let what = format!("StreamingIntegration::with_store(in-memory store, max_deltas {}, flush_interval {:?}, compaction worker {})", cfg.write_buffer.max_deltas, cfg.write_buffer.flush_interval, if with_compactor { "on" } else { "off" });
    let (handles, sender) = match integ.start_workers().await { Ok(x) => x, Err(e) => return Some(Found { input: what, observed: format!("start_workers failed: {}", e), required: "the workers start on a healthy store".into() }) };
    let mut sent: Vec<String> = Vec::new();
    let mut trace: Vec<String> = Vec::new();
    let bursts = 1 + rng.below(4);
    for _ in 0..bursts {
        let n = rng.below(9) as usize;
        for _ in 0..n {
            let d = plain_delta(sent.len(), 1);
            let id = delta_id(&d);
            if let Err(e) = sender.send(d) { return Some(Found { input: format!("{}; {}", what, trace.join("; ")), observed: format!("send refused before shutdown: {}", e), required: "accepted".into() }); }
            sent.push(id);
        }
        trace.push(format!("{} updates sent", n));
        match rng.below(3) { 0 => {} 1 => { tokio::task::yield_now().await; trace.push("yield".into()); } _ => { let ms = 1 + rng.below(25); tokio::time::sleep(Duration::from_millis(ms)).await; trace.push(format!("{} ms pass", ms)); } }
    }
    trace.push("WorkerHandles::shutdown()".into());
    handles.shutdown().await;
    let late = plain_delta(9999, 1);
    if sender.send(late).is_ok() {
        return Some(Found { input: format!("{}; {}; then send(one more update)", what, trace.join("; ")), observed: "send returned Ok after shutdown".into(), required: "Err: nobody will ever take the update out of the sink, the caller must be told".into() });
    }
    let rec = match RecoveryManager::new(inner.clone(), "it", 1).recover().await { Ok(r) => r, Err(e) => return Some(Found { input: format!("{}; {}", what, trace.join("; ")), observed: format!("recovery failed: {}", e), required: "recovery succeeds".into() }) };
    let got: Vec<String> = rec.deltas.iter().map(delta_id).collect();
    let missing: Vec<String> = sent.iter().filter(|s| !got.contains(s)).cloned().collect();
    let extra: Vec<String> = got.iter().filter(|g| !sent.contains(g)).cloned().collect();
    let twice: Vec<String> = sent.iter().filter(|s| got.iter().filter(|g| g == s).count() > 1).cloned().collect();
    if !missing.is_empty() || !extra.is_empty() || !twice.is_empty() {
        return Some(Found { input: format!("{}; {}; then RecoveryManager::recover on the store", what, trace.join("; ")), observed: format!("recovered {} updates; missing {}; never sent {}; twice {}", got.len(), names(&missing), names(&extra), names(&twice)), required: format!("all {} updates sent before the shutdown, once each (flush before stop; the bridge neither drops nor duplicates)", sent.len()) });
    }
    None
}

pub fn search(_pid: &str, oid: &str, seed: u64) -> Option<Found> {
    let rt = tokio::runtime::Builder::new_current_thread().enable_all().build().ok()?;
    redis_sim::buggify::set_config(FaultConfig::new());
    let mut rng = Rng::new(seed + 1212);
    let big = WriteBufferConfig { flush_interval: Duration::from_secs(3600), max_size_bytes: 1 << 30, max_deltas: 1 << 20, backpressure_threshold_bytes: 1 << 30, compression_enabled: false };
    let integration_first = oid.contains("integration") || oid.contains("Integration") || oid.contains("WorkerHandles") || oid.contains("DeltaSink") || oid.contains("bridge");
    let integ = |rng: &mut Rng, n: usize| -> Option<Found> {
        for i in 0..n { if let Some(f) = rt.block_on(integration(rng, i % 8 == 7)) { return Some(f); } }
        None
    };
    if integration_first { if let Some(f) = integ(&mut rng, 16) { return Some(f); } }

    // ---- sequential, scripted: every single / double placement of a failing put in small workloads
    let scripted = |rounds: &[usize], plans: Vec<Plan>, cfg: &WriteBufferConfig, dseed: u64| -> Option<Found> {
        rt.block_on(async {
            let inner = InMemoryObjectStore::new();
            let gs = GateStore::new(inner.clone());
            for p in &plans { gs.plan_next(*p, false); }
            let gs2 = gs.clone(); let pl = plans.clone(); let r2 = rounds.to_vec(); let c2 = cfg.clone();
            let describe = move || format!("WriteBuffer(max_deltas {}, flush_interval {:?}, backpressure at {} bytes) over a scripted store (outcomes of its puts in order: {:?}, then Ok); updates pushed before each flush: {:?}, then flushes until empty; store calls: [{}]", c2.max_deltas, c2.flush_interval, c2.backpressure_threshold_bytes, pl, r2, gs2.log());
            sequential(Arc::new(gs), inner, cfg.clone(), rounds, dseed, &|_| {}, &describe).await
        })
    };
    for rounds in [vec![1usize], vec![1, 0, 2], vec![2, 1, 0, 3], vec![1, 1, 1, 1]] {
        if let Some(f) = scripted(&rounds, vec![], &big, 1) { return Some(f); }
        for a in [Plan::Fail, Plan::FailApplied] {
            for at in 0..4usize {
                let mut p = vec![Plan::Pass; at]; p.push(a);
                if let Some(f) = scripted(&rounds, p.clone(), &big, 1) { return Some(f); }
                for b in [Plan::Fail, Plan::FailApplied] { let mut q = p.clone(); q.push(b); if let Some(f) = scripted(&rounds, q.clone(), &big, 1) { return Some(f); } q.push(Plan::Pass); q.push(b); if let Some(f) = scripted(&rounds, q, &big, 1) { return Some(f); } }
            }
        }
    }
    // bounds: count bound, zero interval (age bound), backpressure (a refused push changes nothing)
    let small = WriteBufferConfig { max_deltas: 3, ..big.clone() };
    let aged = WriteBufferConfig { flush_interval: Duration::ZERO, ..big.clone() };
    let tight = WriteBufferConfig { backpressure_threshold_bytes: 300, ..big.clone() };
    for cfg in [&small, &aged, &tight] {
        for plans in [vec![], vec![Plan::Fail], vec![Plan::Pass, Plan::FailApplied, Plan::Fail]] {
            if let Some(f) = scripted(&[2, 7, 0, 4, 9], plans, cfg, 2) { return Some(f); }
        }
    }

    // ---- overlapping, structured: two flushes in flight, every outcome pair, both completion orders, pushes in between
    for p1 in [Plan::Pass, Plan::Fail, Plan::FailApplied] { for p2 in [Plan::Pass, Plan::Fail, Plan::FailApplied] { for first in [0usize, 1] { for mid in [0usize, 1, 2] {
        let mut ev = vec![Ev::Push, Ev::Push, Ev::Flush(p1, true)];
        for _ in 0..mid { ev.push(Ev::Push); }
        ev.push(Ev::Flush(p2, true));
        ev.push(Ev::Push);
        ev.push(Ev::Release(first)); ev.push(Ev::Push); ev.push(Ev::Release(0));
        // two more flushes afterwards: the keys of the retries must not collide with the keys handed out meanwhile
        ev.extend([Ev::Push, Ev::Flush(Plan::Pass, false), Ev::Push, Ev::Flush(Plan::Pass, false)]);
        if let Some(f) = rt.block_on(overlapping(&ev, 3)) { return Some(f); }
        // the second flush is not held: it completes while the first is still at its gate
        let mut ev = vec![Ev::Push, Ev::Flush(p1, true), Ev::Push];
        ev.push(Ev::Flush(p2, false)); ev.push(Ev::Push); ev.push(Ev::Release(0));
        if let Some(f) = rt.block_on(overlapping(&ev, 4)) { return Some(f); }
    } } } }

    // ---- seeded random
    for it in 0..260u64 {
        let dseed = rng.next() % 100_000;
        match it % 4 {
            0 | 1 => {
                let n = 4 + rng.below(22) as usize;
                let ev: Vec<Ev> = (0..n).map(|_| match rng.below(10) {
                    0..=3 => Ev::Push,
                    4..=6 => Ev::Flush(match rng.below(10) { 0..=5 => Plan::Pass, 6..=8 => Plan::Fail, _ => Plan::FailApplied }, rng.chance(2, 3)),
                    _ => Ev::Release(rng.below(3) as usize),
                }).collect();
                if let Some(f) = rt.block_on(overlapping(&ev, dseed)) { return Some(f); }
            }
            2 => {
                let nr = 1 + rng.below(8) as usize;
                let rounds: Vec<usize> = (0..nr).map(|_| rng.below(6) as usize).collect();
                let plans: Vec<Plan> = (0..rng.below(7)).map(|_| *rng.pick(&[Plan::Pass, Plan::Fail, Plan::FailApplied])).collect();
                let cfg = match rng.below(4) { 0 => &small, 1 => &tight, 2 => &aged, _ => &big };
                if let Some(f) = scripted(&rounds, plans, cfg, dseed) { return Some(f); }
            }
            _ => {
                // the real SimulatedObjectStore: failing puts and timeouts (its silent partial writes are outside the contract)
                let nr = 1 + rng.below(8) as usize;
                let rounds: Vec<usize> = (0..nr).map(|_| rng.below(6) as usize).collect();
                let sc = SimulatedStoreConfig { put_fail_prob: *rng.pick(&[0.1, 0.3, 0.5, 0.8]), timeout_prob: *rng.pick(&[0.0, 0.1, 0.3]), ..SimulatedStoreConfig::no_faults() };
                let s = rng.next() % 100_000;
                let r2 = rounds.clone(); let sc2 = sc.clone();
                let found = rt.block_on(async {
                    let inner = InMemoryObjectStore::new();
                    let sim = SimulatedObjectStore::new(inner.clone(), SimulatedRng::new(s), sc);
                    let describe = move || format!("WriteBuffer over SimulatedObjectStore(rng seed {}, put_fail_prob {}, timeout_prob {}); updates pushed before each flush: {:?}, then flushes until empty (update generator seed {})", s, sc2.put_fail_prob, sc2.timeout_prob, r2, dseed);
                    sequential(Arc::new(sim), inner, big.clone(), &rounds, dseed, &|_| {}, &describe).await
                });
                if found.is_some() { return found; }
            }
        }
    }
    if !integration_first { if let Some(f) = integ(&mut rng, 16) { return Some(f); } }
    None
}
