//! Unit `txn_ops` (C05): MULTI / EXEC / DISCARD / WATCH / UNWATCH of the real CommandExecutor against an independent model of
//! the transaction machinery.  The model keeps (in_txn, queue, watched key -> VISIBLE value at WATCH time); `execute` of an
//! ordinary command is a black box, so the reference for "running the queue in order on a copy" is a TWIN executor that never
//! sees MULTI: it receives the same direct commands and clock moves, and the queued commands only when the model says EXEC applies.
//!  - a queued command replies QUEUED and has no effect until EXEC; EXEC returns one result per queued command, equal to running
//!    them in order; afterwards the keyspace equals the twin's;
//!  - DISCARD and an EXEC whose WATCH is broken leave the keyspace untouched (EXEC replies nil);
//!  - WATCH compares VISIBLE values: a key past its deadline counts as absent whether purged (set_time) or not (update_time_readonly).
use crate::executor::{advance, cmd_text, exec, pexpire, sds, show, snapshot, Clock};
use crate::rng::Rng;
use crate::Found;
use redis_sim::redis::{Command, CommandExecutor, RespValue, Value};
use redis_sim::simulator::VirtualTime;
use std::collections::BTreeMap;

#[derive(Clone, Debug)]
enum Step { Cmd(Command), Clock(Clock, u64) }
fn step_text(s: &Step) -> String { match s { Step::Cmd(c) => match c { Command::Multi => "MULTI".into(), Command::Exec => "EXEC".into(), Command::Discard => "DISCARD".into(), Command::Unwatch => "UNWATCH".into(), Command::Watch(k) => format!("WATCH {}", k.join(" ")), c => cmd_text(c) }, Step::Clock(m, t) => format!("[clock -> {} via {}]", t, if *m == Clock::Active { "set_time" } else { "update_time_readonly" }) } }

/// the value a client sees under k ("type value"), None when the key does not exist (never stored or past its deadline)
fn visible_value(snap: &[String], k: &str) -> Option<String> {
    let prefix = format!("{:?}: ", k);
    snap.iter().find(|l| l.starts_with(&prefix)).map(|l| l[prefix.len()..].rsplitn(2, " pttl ").last().unwrap_or("").to_string())
}

fn quiet_view(ex: &CommandExecutor) -> BTreeMap<String, Value> {
    let keys: Vec<String> = match ex.execute_readonly(&Command::Keys("*".into())) { RespValue::Array(Some(a)) => a.iter().filter_map(|x| if let RespValue::BulkString(Some(b)) = x { Some(String::from_utf8_lossy(b).to_string()) } else { None }).collect(), _ => Vec::new() };
    keys.into_iter().filter_map(|k| ex.get_data().get(&k).cloned().map(|v| (k, v))).collect()
}

fn run_seq(steps: &[Step]) -> Option<(usize, String, String)> {
    let mut real = CommandExecutor::new(); real.set_time(VirtualTime::from_millis(100));
    let mut twin = CommandExecutor::new(); twin.set_time(VirtualTime::from_millis(100));
    let (mut in_txn, mut queue, mut watched): (bool, Vec<Command>, BTreeMap<String, Option<String>>) = (false, Vec::new(), BTreeMap::new());
    for (i, s) in steps.iter().enumerate() {
        match s {
            Step::Clock(m, t) => { advance(&mut real, *m, *t); advance(&mut twin, *m, *t); }
            Step::Cmd(c) => {
                let got = match exec(&mut real, c) { Ok(r) => r, Err(p) => return Some((i, format!("panic: {}", p), "a reply".into())) };
                let gs = show(&got);
                let is_err = matches!(got, RespValue::Error(_));
                let want: String = match c {
                    Command::Multi => if in_txn { "an error".into() } else { in_txn = true; queue.clear(); "+OK".into() },
                    Command::Discard => if in_txn { in_txn = false; queue.clear(); watched.clear(); "+OK".into() } else { "an error".into() },
                    Command::Watch(keys) => if in_txn { "an error".into() } else { let snap = snapshot(&mut twin); for k in keys { watched.insert(k.clone(), visible_value(&snap, k)); } "+OK".into() },
                    Command::Unwatch => if in_txn { queue.push(c.clone()); "+QUEUED".into() } else { watched.clear(); "+OK".into() },
                    Command::Exec => if !in_txn { "an error".into() } else {
                        let snap = snapshot(&mut twin);
                        let broken = watched.iter().find(|(k, v)| visible_value(&snap, k) != **v).map(|(k, v)| (k.clone(), v.clone(), visible_value(&snap, k)));
                        in_txn = false; watched.clear();
                        let q = std::mem::take(&mut queue);
                        match broken {
                            Some((k, was, now)) => format!("nil (watched key {} changed: {:?} at WATCH, {:?} now)", k, was, now),
                            None => { let rs: Vec<String> = q.iter().map(|qc| if matches!(qc, Command::Unwatch) { "+OK".to_string() } else { show(&twin.execute(qc)) }).collect(); format!("[{}]", rs.join(",")) }
                        }
                    },
                    other => if in_txn { queue.push(other.clone()); "+QUEUED".into() } else { show(&twin.execute(other)) },
                };
                let ok = if want == "an error" { is_err } else if want.starts_with("nil (") { gs == "nil" } else { gs == want };
                if !ok { return Some((i, format!("reply {}", gs), format!("reply {}", want))); }
            }
        }
        // whatever happened: the visible keyspace equals the twin's (queued commands have had no effect, EXEC applied exactly the queue,
        // DISCARD / aborted EXEC nothing).  Inside MULTI every command sent through execute() is queued, so the store is read without
        // commands there: visible keys (execute_readonly KEYS) and their stored values (get_data), on both executors alike.
        if in_txn {
            let (a, b) = (quiet_view(&real), quiet_view(&twin));
            if a != b {
                let ka: Vec<&String> = a.keys().collect(); let kb: Vec<&String> = b.keys().collect();
                let k = a.keys().chain(b.keys()).find(|k| a.get(*k) != b.get(*k)).cloned().unwrap_or_default();
                return Some((i, format!("inside MULTI the store shows keys {:?}; key {:?} = {:?}", ka, k, a.get(&k)), format!("keys {:?}; key {:?} = {:?} (a queued command has no effect until EXEC)", kb, k, b.get(&k))));
            }
            continue;
        }
        let (a, b) = (snapshot(&mut real), snapshot(&mut twin));
        if a != b {
            let d1: Vec<String> = a.iter().filter(|l| !b.contains(l)).cloned().collect();
            let d2: Vec<String> = b.iter().filter(|l| !a.contains(l)).cloned().collect();
            return Some((i, format!("visible keyspace: {}{}", d1.join(" | "), if d1.is_empty() { "(entries missing)" } else { "" }), format!("{}{}", d2.join(" | "), if d2.is_empty() { "(those entries absent)" } else { "" })));
        }
    }
    None
}

fn check(steps: &[Step], label: &str) -> Option<Found> {
    let (i, _, _) = run_seq(steps)?;
    let mut min: Vec<Step> = steps[..=i].to_vec();
    let fails = |s: &[Step]| run_seq(s).map(|(j, _, _)| j == s.len() - 1).unwrap_or(false);
    let mut j = 0;
    while j + 1 < min.len() { let mut cand = min.clone(); cand.remove(j); if fails(&cand) { min = cand; } else { j += 1; } }
    let (_, got, want) = run_seq(&min)?;
    Some(Found { input: format!("{} (clock starts at 100), shrunk to: {}", label, min.iter().map(step_text).collect::<Vec<_>>().join(" ; ")), observed: format!("after the last step: {}", got), required: format!("{} (queued commands take effect only at EXEC, in order; WATCH compares visible values)", want) })
}

fn cmd(s: &str) -> Step {
    let w: Vec<&str> = s.split(' ').collect();
    Step::Cmd(match w[0] {
        "MULTI" => Command::Multi, "EXEC" => Command::Exec, "DISCARD" => Command::Discard, "UNWATCH" => Command::Unwatch,
        "WATCH" => Command::Watch(w[1..].iter().map(|x| x.to_string()).collect()),
        "SET" => Command::set(w[1].into(), sds(w[2])), "SETPX" => crate::executor::set_opts(w[1], w[2], None, Some(w[3].parse().unwrap_or(1)), None, None, false),
        "GET" => Command::Get(w[1].into()), "INCR" => Command::Incr(w[1].into()), "DEL" => Command::Del(w[1..].iter().map(|x| x.to_string()).collect()),
        "APPEND" => Command::Append(w[1].into(), sds(w[2])), "RPUSH" => Command::RPush(w[1].into(), w[2..].iter().map(|x| sds(x)).collect()), "LPOP" => Command::LPop(w[1].into()),
        "HSET" => Command::HSet(w[1].into(), vec![(sds(w[2]), sds(w[3]))]), "SADD" => Command::SAdd(w[1].into(), vec![sds(w[2])]), "PEXPIRE" => pexpire(w[1], w[2].parse().unwrap_or(1)),
        "PERSIST" => Command::Persist(w[1].into()), "EXISTS" => Command::Exists(vec![w[1].into()]), "PTTL" => Command::Pttl(w[1].into()),
        _ => Command::Ping(None),
    })
}
fn clk(m: Clock, t: u64) -> Step { Step::Clock(m, t) }

fn structured() -> Vec<(String, Vec<Step>)> {
    let s = |name: &str, steps: Vec<Step>| (name.to_string(), steps);
    let mut v = vec![
        s("queue and EXEC", vec![cmd("SET a 1"), cmd("MULTI"), cmd("INCR a"), cmd("GET a"), cmd("SET b x"), cmd("INCR b"), cmd("RPUSH l 1 2"), cmd("LPOP l"), cmd("GET a"), cmd("EXEC"), cmd("GET a"), cmd("GET b")]),
        s("DISCARD", vec![cmd("SET a 1"), cmd("WATCH a"), cmd("MULTI"), cmd("INCR a"), cmd("DEL a"), cmd("DISCARD"), cmd("GET a"), cmd("EXEC"), cmd("DISCARD"), cmd("MULTI"), cmd("INCR a"), cmd("EXEC")]),
        s("nested MULTI, WATCH inside MULTI, empty EXEC", vec![cmd("MULTI"), cmd("MULTI"), cmd("WATCH a"), cmd("SET a 1"), cmd("EXEC"), cmd("MULTI"), cmd("EXEC"), cmd("EXEC")]),
        s("WATCH broken by a write", vec![cmd("SET a 1"), cmd("WATCH a b"), cmd("SET a 2"), cmd("MULTI"), cmd("SET c 1"), cmd("EXEC"), cmd("GET c"), cmd("MULTI"), cmd("SET c 2"), cmd("EXEC")]),
        s("WATCH on an absent key that gets created", vec![cmd("WATCH nokey"), cmd("RPUSH nokey x"), cmd("MULTI"), cmd("SET c 1"), cmd("EXEC"), cmd("GET c")]),
        s("WATCH not broken (same value rewritten, other key written)", vec![cmd("SET a 1"), cmd("WATCH a"), cmd("SET b 9"), cmd("SET a 1"), cmd("MULTI"), cmd("INCR a"), cmd("EXEC")]),
        s("UNWATCH", vec![cmd("SET a 1"), cmd("WATCH a"), cmd("SET a 2"), cmd("UNWATCH"), cmd("MULTI"), cmd("INCR a"), cmd("EXEC")]),
        s("watches end with EXEC", vec![cmd("SET a 1"), cmd("WATCH a"), cmd("MULTI"), cmd("EXEC"), cmd("SET a 5"), cmd("MULTI"), cmd("INCR a"), cmd("EXEC")]),
        s("non-string watched values", vec![cmd("HSET h f v"), cmd("SADD s m"), cmd("WATCH h s"), cmd("HSET h f v"), cmd("MULTI"), cmd("SET c 1"), cmd("EXEC"), cmd("WATCH h s"), cmd("SADD s n"), cmd("MULTI"), cmd("SET c 2"), cmd("EXEC"), cmd("GET c")]),
        s("errors inside the queue do not stop it", vec![cmd("SET a abc"), cmd("MULTI"), cmd("INCR a"), cmd("RPUSH a x"), cmd("SET b 1"), cmd("INCR b"), cmd("EXEC"), cmd("GET b")]),
    ];
    for mode in [Clock::Lazy, Clock::Active] {
        let m = if mode == Clock::Lazy { "lazy clock" } else { "active clock" };
        v.push(s(&format!("watched key expires before EXEC ({})", m), vec![cmd("SETPX a v 100"), cmd("WATCH a"), clk(mode, 250), cmd("MULTI"), cmd("SET c 1"), cmd("EXEC"), cmd("GET c")]));
        v.push(s(&format!("watched key expires at exactly its deadline ({})", m), vec![cmd("SETPX a v 100"), cmd("WATCH a"), clk(mode, 200), cmd("MULTI"), cmd("SET c 1"), cmd("EXEC"), cmd("GET c")]));
        v.push(s(&format!("watched key one ms before its deadline ({})", m), vec![cmd("SETPX a v 100"), cmd("WATCH a"), clk(mode, 199), cmd("MULTI"), cmd("SET c 1"), cmd("EXEC"), cmd("GET c")]));
        v.push(s(&format!("WATCH of a key already past its deadline, then re-created with the same value ({})", m), vec![cmd("SETPX a v 100"), clk(mode, 300), cmd("WATCH a"), cmd("SET a v"), cmd("MULTI"), cmd("SET c 1"), cmd("EXEC"), cmd("GET c")]));
        v.push(s(&format!("WATCH of a key already past its deadline, nothing happens ({})", m), vec![cmd("SETPX a v 100"), clk(mode, 300), cmd("WATCH a"), cmd("MULTI"), cmd("SET c 1"), cmd("EXEC"), cmd("GET c")]));
        v.push(s(&format!("watched key expires and is re-created with the same value ({})", m), vec![cmd("SETPX a v 100"), cmd("WATCH a"), clk(mode, 300), cmd("SET a v"), cmd("MULTI"), cmd("SET c 1"), cmd("EXEC"), cmd("GET c")]));
        v.push(s(&format!("TTL change alone does not break a WATCH ({})", m), vec![cmd("SET a v"), cmd("WATCH a"), cmd("PEXPIRE a 5000"), clk(mode, 900), cmd("MULTI"), cmd("SET c 1"), cmd("EXEC"), cmd("GET c")]));
        v.push(s(&format!("queued writes meet a key that expired meanwhile ({})", m), vec![cmd("SETPX a 5 100"), cmd("MULTI"), cmd("INCR a"), cmd("PTTL a"), clk(mode, 400), cmd("EXEC"), cmd("GET a")]));
    }
    v
}

pub fn search(_pid: &str, _oid: &str, seed: u64) -> Option<Found> {
    for (label, steps) in structured() { if let Some(f) = check(&steps, &label) { return Some(f); } }
    let mut rng = Rng::new(seed + 55);
    for it in 0..1500u64 {
        let keys = ["a", "b", "c", "l"];
        let mut now = 100u64;
        let mode_pref = rng.below(3);
        let mut steps = Vec::new();
        for i in 0..(10 + rng.below(40)) {
            let k = *rng.pick(&keys);
            steps.push(match rng.below(24) {
                0 | 1 => cmd("MULTI"), 2 | 3 | 4 => cmd("EXEC"), 5 => cmd("DISCARD"), 6 | 7 => Step::Cmd(Command::Watch(vec![k.to_string(), rng.pick(&keys).to_string()])), 8 => cmd("UNWATCH"),
                9 | 10 => cmd(&format!("SET {} v{}", k, i % 3)), 11 => cmd(&format!("SETPX {} v{} {}", k, i % 3, 1 + rng.below(400))), 12 => cmd(&format!("INCR {}", k)), 13 => cmd(&format!("DEL {}", k)),
                14 => cmd(&format!("APPEND {} x", k)), 15 => cmd(&format!("RPUSH {} e", k)), 16 => cmd(&format!("LPOP {}", k)), 17 => cmd(&format!("GET {}", k)), 18 => cmd(&format!("PEXPIRE {} {}", k, 1 + rng.below(300))),
                19 => cmd(&format!("PERSIST {}", k)), 20 => cmd(&format!("EXISTS {}", k)),
                _ => { now += rng.below(250); let m = match mode_pref { 0 => Clock::Active, 1 => Clock::Lazy, _ => if rng.chance(1, 2) { Clock::Active } else { Clock::Lazy } }; clk(m, now) }
            });
        }
        if let Some(f) = check(&steps, &format!("random sequence {} (seed {})", it, seed)) { return Some(f); }
    }
    None
}
