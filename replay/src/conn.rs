//! Units `conn` / `batch_collect` (C04) through the hook `redis_sim::production::verif_serve_connection`: the REAL
//! OptimizedConnectionHandler runs over an in-memory duplex stream.
//!  default battery: byte streams of well-formed commands, pipelined and cut into separate writes at EVERY position, at random
//!    positions, byte by byte, under several ConnectionConfigs (tiny read buffer, batching thresholds): exactly one reply per
//!    command, in order, byte-identical to the replies obtained by sending the same commands one at a time to a fresh server;
//!    malformed frames get an error reply or a clean close - never a hang (timeouts), a panic or torn output.
//!  obligation ids containing "assert#4": exactly the known garbage-acceptance inputs (14-vs-13 header skew of the batch collectors).
use crate::rng::Rng;
use crate::Found;
use redis_sim::production::{verif_serve_connection, ConnectionConfig, ShardedActorState};
use std::time::Duration;
use tokio::io::{AsyncReadExt, AsyncWriteExt, DuplexStream};
use tokio::task::JoinHandle;

fn show(b: &[u8]) -> String {
    let s: String = b.iter().map(|&c| match c { b'\r' => "\\r".to_string(), b'\n' => "\\n".to_string(), 0x20..=0x7e => (c as char).to_string(), _ => format!("\\x{:02x}", c) }).collect();
    if s.len() > 600 { format!("{}..({} bytes)", &s[..300], b.len()) } else { s }
}

fn cmd(parts: &[&[u8]]) -> Vec<u8> {
    let mut o = format!("*{}\r\n", parts.len()).into_bytes();
    for p in parts { o.extend_from_slice(format!("${}\r\n", p.len()).as_bytes()); o.extend_from_slice(p); o.extend_from_slice(b"\r\n"); }
    o
}
fn c(words: &[&str]) -> Vec<u8> { cmd(&words.iter().map(|w| w.as_bytes()).collect::<Vec<_>>()) }

/// length of the first complete RESP value in `b` (independent splitter for the reply stream); None = incomplete; Err = not RESP
fn reply_len(b: &[u8]) -> Result<Option<usize>, String> {
    if b.is_empty() { return Ok(None); }
    let line_end = match b.windows(2).position(|w| w == b"\r\n") { Some(p) => p, None => return if b.len() > 70000 { Err("no CRLF".into()) } else { Ok(None) } };
    let line = &b[1..line_end];
    match b[0] {
        b'+' | b'-' | b':' => Ok(Some(line_end + 2)),
        b'$' => { let n: i64 = std::str::from_utf8(line).ok().and_then(|s| s.parse().ok()).ok_or("bad bulk length")?; if n < 0 { Ok(Some(line_end + 2)) } else { let tot = line_end + 2 + n as usize + 2; if b.len() < tot { Ok(None) } else if &b[tot - 2..tot] != b"\r\n" { Err("bulk not terminated by CRLF".into()) } else { Ok(Some(tot)) } } }
        b'*' => {
            let n: i64 = std::str::from_utf8(line).ok().and_then(|s| s.parse().ok()).ok_or("bad array length")?;
            let mut off = line_end + 2;
            for _ in 0..n.max(0) { match reply_len(&b[off..])? { Some(l) => off += l, None => return Ok(None) } }
            Ok(Some(off))
        }
        other => Err(format!("reply starts with byte {:#04x}", other)),
    }
}

fn split_replies(b: &[u8]) -> Result<(Vec<Vec<u8>>, usize), String> {
    let mut out = Vec::new(); let mut off = 0;
    while off < b.len() { match reply_len(&b[off..])? { Some(l) => { out.push(b[off..off + l].to_vec()); off += l; } None => break } }
    Ok((out, off))
}

#[derive(Clone, Debug)]
struct Cfg { shards: usize, read_buffer_size: usize, min_pipeline_buffer: usize, batch_threshold: usize }
fn cfg_text(c: &Cfg) -> String { format!("{} shard(s), ConnectionConfig{{read_buffer_size={}, min_pipeline_buffer={}, batch_threshold={}}}", c.shards, c.read_buffer_size, c.min_pipeline_buffer, c.batch_threshold) }

struct Server { client: DuplexStream, task: JoinHandle<()>, inbuf: Vec<u8> }

fn start(cfg: &Cfg) -> Server { start_on(cfg, ShardedActorState::with_shards(cfg.shards)) }

/// a connection on an existing (shared) store
fn start_on(cfg: &Cfg, state: ShardedActorState) -> Server {
    let (client, server) = tokio::io::duplex(1 << 20);
    let cc = ConnectionConfig { max_buffer_size: 64 * 1024 * 1024, read_buffer_size: cfg.read_buffer_size, min_pipeline_buffer: cfg.min_pipeline_buffer, batch_threshold: cfg.batch_threshold };
    let task = tokio::task::spawn_local(async move { verif_serve_connection(server, state, cc).await });
    Server { client, task, inbuf: Vec::new() }
}

const STEP: Duration = Duration::from_millis(1500);

impl Server {
    /// read until `n` complete replies are buffered; Err = timeout / EOF / not RESP
    async fn read_replies(&mut self, n: usize) -> Result<Vec<Vec<u8>>, String> {
        let mut buf = vec![0u8; 65536];
        loop {
            let (r, used) = split_replies(&self.inbuf).map_err(|e| format!("reply stream is not RESP ({}): {}", e, show(&self.inbuf)))?;
            if r.len() >= n { let out = r[..n].to_vec(); let used_n: usize = out.iter().map(|x| x.len()).sum(); let _ = used; self.inbuf.drain(..used_n); return Ok(out); }
            match tokio::time::timeout(STEP, self.client.read(&mut buf)).await {
                Err(_) => return Err(format!("timeout: {} of {} replies after {:?}; received so far: {}", r.len(), n, STEP, show(&self.inbuf))),
                Ok(Ok(0)) => return Err(format!("connection closed by the server after {} of {} replies; received: {}", r.len(), n, show(&self.inbuf))),
                Ok(Ok(k)) => self.inbuf.extend_from_slice(&buf[..k]),
                Ok(Err(e)) => return Err(format!("read error {}", e)),
            }
        }
    }
    async fn settle(&self, yields: usize) { for _ in 0..yields { tokio::task::yield_now().await; } }
    /// close our write side and wait for the handler to finish: Err = hang or panic
    async fn finish(mut self) -> Result<Vec<u8>, String> {
        let _ = self.client.shutdown().await;
        let mut rest = Vec::new();
        match tokio::time::timeout(STEP, self.client.read_to_end(&mut rest)).await { Err(_) => return Err("the handler does not terminate after the client closed its side (hang)".into()), Ok(_) => {} }
        match tokio::time::timeout(STEP, &mut self.task).await {
            Err(_) => Err("the handler task does not finish after the client closed (hang)".into()),
            Ok(Err(e)) if e.is_panic() => Err("the handler panicked".into()),
            Ok(_) => { let mut all = self.inbuf.clone(); all.extend_from_slice(&rest); Ok(all) }
        }
    }
}

/// replies of the commands sent one at a time (each reply awaited before the next command is written) to a fresh server
async fn reference(cfg: &Cfg, cmds: &[Vec<u8>]) -> Result<Vec<Vec<u8>>, String> {
    let mut s = start(cfg);
    let mut out = Vec::new();
    for (i, c) in cmds.iter().enumerate() {
        s.client.write_all(c).await.map_err(|e| e.to_string())?;
        let r = s.read_replies(1).await.map_err(|e| format!("command #{} {} sent alone: {}", i, show(c), e))?;
        out.push(r[0].clone());
    }
    let _ = s.finish().await;
    Ok(out)
}

/// the same byte stream cut at `cuts` into separate writes (the handler gets to run between two writes)
async fn pipelined(cfg: &Cfg, stream: &[u8], cuts: &[usize], n: usize) -> Result<Vec<Vec<u8>>, String> {
    let mut s = start(cfg);
    let mut prev = 0;
    for &cut in cuts.iter().chain(std::iter::once(&stream.len())) {
        if cut > prev { s.client.write_all(&stream[prev..cut]).await.map_err(|e| e.to_string())?; s.settle(6).await; prev = cut; }
    }
    let mut replies = s.read_replies(n).await?;
    // nothing but the PONG of a sentinel may follow
    s.client.write_all(b"*1\r\n$4\r\nPING\r\n").await.map_err(|e| e.to_string())?;
    let sentinel = s.read_replies(1).await.map_err(|e| format!("after all replies, sentinel PING: {}", e))?;
    if sentinel[0] != b"+PONG\r\n" { replies.push(sentinel[0].clone()); }
    let tail = s.finish().await?;
    if !tail.is_empty() { replies.push(tail); }
    Ok(replies)
}

async fn check_session(cfg: &Cfg, name: &str, cmds: &[Vec<u8>], cutsets: &[Vec<usize>]) -> Option<Found> {
    let stream: Vec<u8> = cmds.concat();
    let describe = |cuts: &[usize]| format!("{}; session '{}': {} commands, {} bytes: {}; written in {} pieces (cut at byte offsets {:?})", cfg_text(cfg), name, cmds.len(), stream.len(), show(&stream), cuts.len() + 1, if cuts.len() > 12 { &cuts[..12] } else { cuts });
    let want = match reference(cfg, cmds).await { Ok(w) => w, Err(e) => return Some(Found { input: format!("{}; session '{}' sent one command at a time: {}", cfg_text(cfg), name, show(&stream)), observed: e, required: "one reply per command".into() }) };
    for cuts in cutsets {
        match pipelined(cfg, &stream, cuts, cmds.len()).await {
            Err(e) => return Some(Found { input: describe(cuts), observed: e, required: format!("exactly {} replies, in order: {}", cmds.len(), show(&want.concat())) }),
            Ok(got) => if got != want {
                let i = (0..want.len().max(got.len())).find(|&i| got.get(i) != want.get(i)).unwrap_or(0);
                return Some(Found { input: describe(cuts), observed: format!("{} replies; reply #{} (to {}) is {}", got.len(), i, cmds.get(i).map(|c| show(c)).unwrap_or_else(|| "nothing: surplus reply".into()), got.get(i).map(|g| show(g)).unwrap_or_else(|| "missing".into())), required: format!("exactly {} replies, in order, equal to the one-at-a-time replies; reply #{} = {}", want.len(), i, want.get(i).map(|g| show(g)).unwrap_or_else(|| "none".into())) });
            }
        }
    }
    None
}

fn sessions(rng: &mut Rng) -> Vec<(String, Vec<Vec<u8>>)> {
    let mut v: Vec<(String, Vec<Vec<u8>>)> = Vec::new();
    v.push(("mixed".into(), vec![c(&["SET", "k", "v1"]), c(&["GET", "k"]), c(&["INCR", "n"]), c(&["INCR", "n"]), c(&["GET", "n"]), c(&["PING"]), c(&["MGET", "k", "n", "zz"]), c(&["DEL", "k"]), c(&["GET", "k"]), c(&["EXISTS", "n", "k"]), c(&["APPEND", "n", "x"]), c(&["INCR", "n"]), c(&["ECHO", "hi"])]));
    v.push(("pipelined GETs (batch collector territory)".into(), { let mut s = vec![c(&["SET", "a", "1"]), c(&["SET", "bb", "22"])]; for _ in 0..4 { s.push(c(&["GET", "a"])); s.push(c(&["GET", "bb"])); s.push(c(&["get", "nokey"])); } s }));
    v.push(("pipelined SETs then GETs".into(), { let mut s = Vec::new(); for i in 0..6 { s.push(c(&["SET", &format!("key{}", i), &format!("val{}", i)])); } for i in 0..6 { s.push(c(&["GET", &format!("key{}", i)])); } s.push(c(&["set", "key0", "again"])); s.push(c(&["GET", "key0"])); s }));
    v.push(("binary and empty values".into(), vec![cmd(&[b"SET", b"b", b"\r\n$3\r\nGET\r\n"]), c(&["GET", "b"]), cmd(&[b"SET", b"e", b""]), c(&["GET", "e"]), cmd(&[b"SET", b"", b"emptykey"]), cmd(&[b"GET", b""]), cmd(&[b"SET", b"z", b"\x00\xff*2\r\n"]), c(&["STRLEN", "z"]), c(&["GET", "z"])]));
    v.push(("errors in the middle".into(), vec![c(&["SET", "s", "abc"]), c(&["INCR", "s"]), c(&["LPUSH", "s", "x"]), c(&["NOSUCHCOMMAND", "a"]), c(&["GET"]), c(&["GET", "s"]), c(&["RPUSH", "l", "1", "2"]), c(&["GET", "l"]), c(&["LRANGE", "l", "0", "-1"])]));
    v.push(("transaction".into(), vec![c(&["MULTI"]), c(&["SET", "t", "1"]), c(&["INCR", "t"]), c(&["GET", "t"]), c(&["EXEC"]), c(&["GET", "t"]), c(&["MULTI"]), c(&["SET", "t", "9"]), c(&["DISCARD"]), c(&["GET", "t"])]));
    let big = "B".repeat(20_000);
    v.push(("value larger than the read buffer".into(), vec![c(&["SET", "big", &big]), c(&["STRLEN", "big"]), c(&["GET", "big"]), c(&["SET", "small", "s"]), c(&["GET", "small"])]));
    // seeded random sessions
    for i in 0..6 {
        let n = 6 + rng.below(14);
        let keys = ["a", "b", "key:1", "n", "long_key_name_0123456789"];
        let mut s = Vec::new();
        for j in 0..n {
            let k = *rng.pick(&keys);
            s.push(match rng.below(10) { 0 | 1 | 2 => c(&["GET", k]), 3 | 4 => c(&["SET", k, &format!("v{}", j)]), 5 => c(&["INCR", "n"]), 6 => c(&["DEL", k]), 7 => c(&["PING"]), 8 => c(&["MGET", k, "a"]), _ => c(&["EXISTS", k]) });
        }
        v.push((format!("random {}", i), s));
    }
    v
}

fn configs() -> Vec<Cfg> {
    vec![
        Cfg { shards: 1, read_buffer_size: 8192, min_pipeline_buffer: 60, batch_threshold: 2 },
        Cfg { shards: 4, read_buffer_size: 8192, min_pipeline_buffer: 60, batch_threshold: 2 },
        Cfg { shards: 1, read_buffer_size: 7, min_pipeline_buffer: 60, batch_threshold: 2 },
        Cfg { shards: 4, read_buffer_size: 64, min_pipeline_buffer: 1, batch_threshold: 1 },
        Cfg { shards: 1, read_buffer_size: 8192, min_pipeline_buffer: 0, batch_threshold: 3 },
    ]
}

/// malformed input: (name, bytes, must_reply): must_reply = the frame is complete and invalid, so an error reply or a close is due while
/// the connection is still open; otherwise (could be a prefix of something longer) only "no hang / no panic / no torn output after close"
fn malformed() -> Vec<(&'static str, Vec<u8>, bool)> {
    let pad = vec![b'p'; 48];
    let mut v: Vec<(&'static str, Vec<u8>, bool)> = vec![
        ("negative bulk length $-2", b"$-2\r\n".to_vec(), true),
        ("negative bulk length inside a command", b"*2\r\n$3\r\nGET\r\n$-2\r\n".to_vec(), true),
        ("negative array length *-5", b"*-5\r\n".to_vec(), true),
        // the handler treats it as the start of a (never completed) frame and waits for elements: no reply is due while the client keeps the connection open
        ("array length i64::MAX", b"*9223372036854775807\r\n".to_vec(), false),
        ("bulk length u64::MAX", [b"$18446744073709551615\r\n".to_vec(), pad.clone()].concat(), true),
        ("GET with key length u64::MAX", [b"*2\r\n$3\r\nGET\r\n$18446744073709551615\r\n".to_vec(), pad.clone()].concat(), true),
        ("GET with a doubled $ and key length u64::MAX", [b"*2\r\n$3\r\nGET\r\n$$18446744073709551615\r\n".to_vec(), pad.clone()].concat(), true),
        ("SET with value length u64::MAX", [b"*3\r\n$3\r\nSET\r\n$1\r\nk\r\n$18446744073709551615\r\n".to_vec(), pad.clone()].concat(), true),
        ("bulk length i64::MAX", [b"*2\r\n$3\r\nGET\r\n$9223372036854775807\r\n".to_vec(), pad.clone()].concat(), false),
        ("non-numeric length", b"*2\r\n$3\r\nGET\r\n$abc\r\nk\r\n".to_vec(), true),
        ("unknown type byte", b"!hello\r\n".to_vec(), true),
        // like Redis itself the decoder skips the two bytes after a bulk without looking at them: GET k is executed
        ("bulk not terminated by CRLF", b"*2\r\n$3\r\nGET\r\n$1\r\nkXX".to_vec(), false),
        ("inline garbage", b"hello world\r\n".to_vec(), false),
        ("empty array", b"*0\r\n".to_vec(), false),
        ("nested array as command", b"*1\r\n*1\r\n$4\r\nPING\r\n".to_vec(), true),
        ("integer as command", b":1\r\n".to_vec(), true),
        ("truncated command", b"*2\r\n$3\r\nGET\r\n$5\r\nab".to_vec(), false),
        ("lone CR", b"*2\r\n$3\r\nGET\r".to_vec(), false),
        ("binary noise", vec![0u8, 255, 13, 10, 42, 36, 13, 13, 10, 10], false),
    ];
    v.push(("huge declared array of huge bulks", b"*1000000\r\n$1000000000\r\n".to_vec(), false));
    v
}

async fn check_malformed(cfg: &Cfg) -> Option<Found> {
    for (name, bytes, must_reply) in malformed() {
        for prefix in [&b""[..], &b"*1\r\n$4\r\nPING\r\n"[..]] {
            let mut s = start(cfg);
            let mut input = prefix.to_vec(); input.extend_from_slice(&bytes);
            if s.client.write_all(&input).await.is_err() { continue; }
            let expect = if prefix.is_empty() { 1 } else { 2 };
            let ctx = format!("{}; malformed input ({}): {}", cfg_text(cfg), name, show(&input));
            if must_reply {
                match s.read_replies(expect).await {
                    Ok(r) => { let last = r.last().cloned().unwrap_or_default(); if last.first() != Some(&b'-') { if std::env::var("VERIF_CONN_ALL").is_ok() { eprintln!("MALFORMED {} | reply {}", ctx, show(&last)); } else { return Some(Found { input: ctx, observed: format!("reply {}", show(&last)), required: "an error reply or a clean close".into() }); } } }
                    Err(e) if e.starts_with("connection closed") => {}
                    Err(e) => { if std::env::var("VERIF_CONN_ALL").is_ok() { eprintln!("MALFORMED {} | {}", ctx, e); } else { return Some(Found { input: ctx, observed: e, required: "an error reply or a clean close - never a hang".into() }); } }
                }
            }
            match s.finish().await {
                Err(e) => return Some(Found { input: ctx, observed: e, required: "the connection ends cleanly when the client closes: no hang, no panic".into() }),
                Ok(all) => if let Err(e) = split_replies(&all).and_then(|(_, used)| if used == all.len() { Ok(()) } else { Err("torn reply at the end".to_string()) }) { return Some(Found { input: ctx, observed: format!("output {} : {}", show(&all), e), required: "only complete RESP replies".into() }); },
            }
        }
    }
    None
}

/// the two OPEN known findings: garbage that is not RESP is accepted as GET / SET by the batch collectors (HEADER_LEN 14 vs a 13-byte literal)
async fn check_garbage(which: &str) -> Option<Found> {
    let cfg = Cfg { shards: 1, read_buffer_size: 8192, min_pipeline_buffer: 60, batch_threshold: 2 };
    let g_get = b"*2\r\n$3\r\nGET\r\nX$1\rYaZZ".to_vec();
    let g_set = b"*3\r\n$3\r\nSET\r\nX$1\rYkZZ$1\rYvZZ".to_vec();
    let mut cases: Vec<(&str, Vec<u8>, Vec<u8>)> = Vec::new();
    if which != "set" { cases.push(("collect_get_keys", c(&["SET", "a", "1"]), g_get.repeat(3))); }
    if which != "get" { cases.push(("collect_set_pairs", c(&["GET", "k"]), g_set.repeat(3))); }
    for (what, setup, garbage) in cases {
        let mut s = start(&cfg);
        if s.client.write_all(&setup).await.is_err() { continue; }
        let first = s.read_replies(1).await.ok();
        if s.client.write_all(&garbage).await.is_err() { continue; }
        let ctx = format!("{}; after {} (reply {}), one write of {} bytes that are not RESP frames: {}", cfg_text(&cfg), show(&setup), first.as_ref().map(|r| show(&r[0])).unwrap_or_default(), garbage.len(), show(&garbage));
        let got = s.read_replies(1).await;
        let more = if matches!(&got, Ok(r) if r[0].first() != Some(&b'-')) { let _ = s.read_replies(2).await; 2 } else { 0 };
        let after = { let _ = s.client.write_all(&c(&["GET", "k"])).await; s.read_replies(1).await.ok().map(|r| show(&r[0])) };
        match got {
            Ok(r) if r[0].first() == Some(&b'-') => {}
            Err(e) if e.starts_with("connection closed") => {}
            Ok(r) => { return Some(Found { input: ctx, observed: format!("{} treats the garbage as commands: first reply {} ({} more replies follow); a following GET k replies {:?}", what, show(&r[0]), more, after), required: "a protocol error reply (or a close): bytes that are not a well-formed frame are never executed as a command".into() }); }
            Err(e) => return Some(Found { input: ctx, observed: format!("{}: {}", what, e), required: "a protocol error reply (or a close)".into() }),
        }
    }
    None
}


/// single-frame variant of the same garbage (try_fast_get / try_fast_set, assert#2): ONE frame alone in a write, below
/// min_pipeline_buffer, so it reaches the single-command fast path instead of the batch collectors
async fn check_garbage_single(which: &str) -> Option<Found> {
    let cfg = Cfg { shards: 1, read_buffer_size: 8192, min_pipeline_buffer: 60, batch_threshold: 2 };
    let mut cases: Vec<(&str, Vec<u8>, Vec<u8>, Vec<u8>)> = Vec::new();
    if which != "set" { cases.push(("try_fast_get", c(&["SET", "a", "1"]), b"*2\r\n$3\r\nGET\r\nX$1\rYaZZ".to_vec(), c(&["GET", "a"]))); }
    if which != "get" { cases.push(("try_fast_set", c(&["GET", "k"]), b"*3\r\n$3\r\nSET\r\nX$1\rYkZZ$1\rYvZZ".to_vec(), c(&["GET", "k"]))); }
    for (what, setup, garbage, probe) in cases {
        let mut s = start(&cfg);
        if s.client.write_all(&setup).await.is_err() { continue; }
        let first = s.read_replies(1).await.ok();
        if s.client.write_all(&garbage).await.is_err() { continue; }
        let ctx = format!("{}; after {} (reply {}), ONE write of {} bytes (below min_pipeline_buffer) that is not a RESP frame: {}", cfg_text(&cfg), show(&setup), first.as_ref().map(|r| show(&r[0])).unwrap_or_default(), garbage.len(), show(&garbage));
        let got = s.read_replies(1).await;
        match got {
            Ok(r) if r[0].first() == Some(&b'-') => {}
            Err(e) if e.starts_with("connection closed") => {}
            Ok(r) => { let _ = s.client.write_all(&probe).await; let after = s.read_replies(1).await.ok().map(|r| show(&r[0])); return Some(Found { input: ctx, observed: format!("{} executes the garbage as a command: reply {}; a following {} replies {:?}", what, show(&r[0]), show(&probe), after), required: "a protocol error reply (or a close): bytes that are not a well-formed frame are never executed as a command".into() }); }
            Err(e) => return Some(Found { input: ctx, observed: format!("{}: {}", what, e), required: "a protocol error reply (or a close)".into() }),
        }
    }
    None
}


// ======================= conn_txn (C05 / C04): connection-level MULTI / EXEC / DISCARD / WATCH, two connections on one store =======================
#[derive(Clone)]
enum Exp { Exact(&'static [u8]), Bytes(Vec<u8>), Error, Nil }
fn exp_text(e: &Exp) -> String { match e { Exp::Exact(b) => show(b), Exp::Bytes(b) => show(b), Exp::Error => "an error reply".into(), Exp::Nil => "nil ($-1 or *-1)".into() } }
fn exp_ok(e: &Exp, got: &[u8]) -> bool { match e { Exp::Exact(b) => got == *b, Exp::Bytes(b) => got == &b[..], Exp::Error => got.first() == Some(&b'-'), Exp::Nil => got == b"$-1\r\n" || got == b"*-1\r\n" } }

fn txn_scripts() -> Vec<(&'static str, Vec<(usize, Vec<u8>, Exp)>)> {
    let ok = Exp::Exact(b"+OK\r\n"); let q = Exp::Exact(b"+QUEUED\r\n");
    let mut v: Vec<(&'static str, Vec<(usize, Vec<u8>, Exp)>)> = Vec::new();
    // WATCH of every value type, changed by the OTHER connection before EXEC -> nil, nothing applied
    for (name, create, change) in [
        ("list", c(&["RPUSH", "w", "a"]), c(&["RPUSH", "w", "b"])), ("string", c(&["SET", "w", "1"]), c(&["SET", "w", "2"])), ("hash", c(&["HSET", "w", "f", "v"]), c(&["HSET", "w", "f", "v2"])),
        ("set", c(&["SADD", "w", "m"]), c(&["SADD", "w", "n"])), ("zset", c(&["ZADD", "w", "1", "m"]), c(&["ZADD", "w", "2", "m"])), ("list shrinking", c(&["RPUSH", "w", "a", "b"]), c(&["LPOP", "w"])),
        ("key deleted", c(&["SET", "w", "1"]), c(&["DEL", "w"])), ("absent key created", c(&["PING"]), c(&["RPUSH", "w", "x"])), ("type changed", c(&["SET", "w", "1"]), c(&["DEL", "w"])),
    ] {
        let label: &'static str = Box::leak(format!("WATCH on a {} changed by another connection", name).into_boxed_str());
        let mut st = vec![(0usize, create.clone(), Exp::Bytes(Vec::new())), (0, c(&["WATCH", "w"]), ok.clone()), (1, change.clone(), Exp::Bytes(Vec::new()))];
        if name == "type changed" { st.push((1, c(&["RPUSH", "w", "1"]), Exp::Bytes(Vec::new()))); }
        st.extend(vec![(0, c(&["MULTI"]), ok.clone()), (0, c(&["SET", "x", "1"]), q.clone()), (0, c(&["EXEC"]), Exp::Nil), (1, c(&["GET", "x"]), Exp::Exact(b"$-1\r\n")), (0, c(&["GET", "x"]), Exp::Exact(b"$-1\r\n")),
            // the watch is gone after EXEC: the next transaction applies
            (0, c(&["MULTI"]), ok.clone()), (0, c(&["SET", "x", "2"]), q.clone()), (0, c(&["EXEC"]), Exp::Exact(b"*1\r\n+OK\r\n")), (1, c(&["GET", "x"]), Exp::Exact(b"$1\r\n2\r\n"))]);
        v.push((label, st));
        // control: the other connection touches ANOTHER key -> EXEC applies
        let label2: &'static str = Box::leak(format!("WATCH on a {} not changed (another key is written)", name).into_boxed_str());
        v.push((label2, vec![(0, create, Exp::Bytes(Vec::new())), (0, c(&["WATCH", "w"]), ok.clone()), (1, c(&["SET", "other", "1"]), ok.clone()), (0, c(&["MULTI"]), ok.clone()), (0, c(&["SET", "x", "1"]), q.clone()), (0, c(&["EXEC"]), Exp::Exact(b"*1\r\n+OK\r\n")), (1, c(&["GET", "x"]), Exp::Exact(b"$1\r\n1\r\n"))]));
    }
    v.push(("queued commands are invisible to the other connection until EXEC; results in order", vec![
        (0, c(&["MULTI"]), ok.clone()), (0, c(&["SET", "q", "abc"]), q.clone()), (0, c(&["INCR", "q"]), q.clone()), (0, c(&["GET", "q"]), q.clone()), (0, c(&["RPUSH", "ql", "1", "2"]), q.clone()),
        (1, c(&["GET", "q"]), Exp::Exact(b"$-1\r\n")), (1, c(&["EXISTS", "ql"]), Exp::Exact(b":0\r\n")),
        (0, c(&["EXEC"]), Exp::Exact(b"*4\r\n+OK\r\n-ERR value is not an integer or out of range\r\n$3\r\nabc\r\n:2\r\n")), (1, c(&["GET", "q"]), Exp::Exact(b"$3\r\nabc\r\n")), (1, c(&["LLEN", "ql"]), Exp::Exact(b":2\r\n"))]));
    v.push(("DISCARD, UNWATCH, state-machine errors", vec![
        (0, c(&["EXEC"]), Exp::Error), (0, c(&["DISCARD"]), Exp::Error), (0, c(&["SET", "a", "1"]), ok.clone()), (0, c(&["WATCH", "a"]), ok.clone()), (0, c(&["MULTI"]), ok.clone()), (0, c(&["MULTI"]), Exp::Error), (0, c(&["WATCH", "a"]), Exp::Error),
        (0, c(&["SET", "a", "2"]), q.clone()), (0, c(&["DISCARD"]), ok.clone()), (0, c(&["GET", "a"]), Exp::Exact(b"$1\r\n1\r\n")), (0, c(&["EXEC"]), Exp::Error),
        (0, c(&["WATCH", "a"]), ok.clone()), (1, c(&["SET", "a", "9"]), ok.clone()), (0, c(&["UNWATCH"]), ok.clone()), (0, c(&["MULTI"]), ok.clone()), (0, c(&["INCR", "a"]), q.clone()), (0, c(&["EXEC"]), Exp::Exact(b"*1\r\n:10\r\n")),
        (0, c(&["MULTI"]), ok.clone()), (0, c(&["EXEC"]), Exp::Exact(b"*0\r\n")), (1, c(&["MULTI"]), ok.clone()), (0, c(&["SET", "a", "0"]), ok.clone()), (1, c(&["INCR", "a"]), q.clone()), (1, c(&["EXEC"]), Exp::Exact(b"*1\r\n:1\r\n"))]));
    v.push(("two interleaved transactions on two connections", vec![
        (0, c(&["MULTI"]), ok.clone()), (1, c(&["MULTI"]), ok.clone()), (0, c(&["RPUSH", "t", "c0"]), q.clone()), (1, c(&["RPUSH", "t", "c1"]), q.clone()), (1, c(&["EXEC"]), Exp::Exact(b"*1\r\n:1\r\n")), (0, c(&["EXEC"]), Exp::Exact(b"*1\r\n:2\r\n")),
        (0, c(&["LRANGE", "t", "0", "-1"]), Exp::Exact(b"*2\r\n$2\r\nc1\r\n$2\r\nc0\r\n"))]));
    v
}

async fn check_conn_txn(cfg: &Cfg) -> Option<Found> {
    for (name, script) in txn_scripts() {
        let state = ShardedActorState::with_shards(cfg.shards);
        let mut conns = vec![start_on(cfg, state.clone()), start_on(cfg, state.clone())];
        let mut hist: Vec<String> = Vec::new();
        for (ci, bytes, want) in &script {
            if conns[*ci].client.write_all(bytes).await.is_err() { break; }
            let got = conns[*ci].read_replies(1).await;
            let ctx = format!("{}; two connections on one store; scenario '{}': {} ; then connection {} sends {}", cfg_text(cfg), name, hist.join(" ; "), ci, show(bytes));
            match got {
                Err(e) => return Some(Found { input: ctx, observed: e, required: format!("exactly one reply: {}", exp_text(want)) }),
                Ok(r) => {
                    let free = matches!(want, Exp::Bytes(b) if b.is_empty());
                    if !free && !exp_ok(want, &r[0]) { return Some(Found { input: ctx, observed: format!("reply {}", show(&r[0])), required: format!("reply {}", exp_text(want)) }); }
                    hist.push(format!("c{}: {} -> {}", ci, show(bytes), show(&r[0])));
                }
            }
        }
        // exactly one reply per command: nothing but the PONG of a sentinel is left on either connection
        for (ci, mut s) in conns.into_iter().enumerate() {
            let _ = s.client.write_all(b"*1\r\n$4\r\nPING\r\n").await;
            match s.read_replies(1).await { Ok(r) if r[0] == b"+PONG\r\n" => {} other => return Some(Found { input: format!("{}; scenario '{}': {}; sentinel PING on connection {}", cfg_text(cfg), name, hist.join(" ; "), ci), observed: format!("{:?}", other.map(|r| show(&r[0]))), required: "+PONG (exactly one reply per command, nothing left over)".into() }) }
            match s.finish().await { Ok(rest) if rest.is_empty() => {} Ok(rest) => return Some(Found { input: format!("{}; scenario '{}': {}", cfg_text(cfg), name, hist.join(" ; ")), observed: format!("surplus output on connection {}: {}", ci, show(&rest)), required: "exactly one reply per command".into() }), Err(e) => return Some(Found { input: format!("{}; scenario '{}'", cfg_text(cfg), name), observed: e, required: "a clean end of the connection".into() }) }
        }
    }
    None
}

pub fn search_txn(_pid: &str, _oid: &str, seed: u64) -> Option<Found> {
    let rt = tokio::runtime::Builder::new_current_thread().enable_all().build().ok()?;
    let local = tokio::task::LocalSet::new();
    local.block_on(&rt, async move {
        for cfg in configs().iter().take(2) { if let Some(f) = check_conn_txn(cfg).await { return Some(f); } }
        // pipelining / fragmentation of whole transactions on one connection: one reply per command inside and outside MULTI
        let mut rng = Rng::new(seed + 45);
        let sess: Vec<(String, Vec<Vec<u8>>)> = vec![
            ("transaction with errors, pipelined".into(), vec![c(&["SET", "a", "abc"]), c(&["MULTI"]), c(&["INCR", "a"]), c(&["GET", "a"]), c(&["RPUSH", "l", "1"]), c(&["EXEC"]), c(&["GET", "a"]), c(&["MULTI"]), c(&["SET", "a", "2"]), c(&["DISCARD"]), c(&["GET", "a"]), c(&["EXEC"]), c(&["MULTI"]), c(&["MULTI"]), c(&["WATCH", "a"]), c(&["EXEC"])]),
            ("WATCH then own write then transaction, pipelined".into(), vec![c(&["RPUSH", "l", "a"]), c(&["WATCH", "l", "s"]), c(&["RPUSH", "l", "b"]), c(&["MULTI"]), c(&["SET", "x", "1"]), c(&["GET", "x"]), c(&["EXEC"]), c(&["GET", "x"]), c(&["WATCH", "l"]), c(&["UNWATCH"]), c(&["MULTI"]), c(&["LLEN", "l"]), c(&["EXEC"])]),
            ("fast-path commands inside MULTI".into(), vec![c(&["MULTI"]), c(&["SET", "k", "v"]), c(&["GET", "k"]), c(&["SET", "k", "w"]), c(&["GET", "k"]), c(&["EXEC"]), c(&["GET", "k"]), c(&["GET", "k"]), c(&["GET", "k"])]),
        ];
        for (ci, cfg) in configs().iter().enumerate() {
            for (name, cmds) in &sess {
                let total: usize = cmds.iter().map(|c| c.len()).sum();
                let mut cutsets: Vec<Vec<usize>> = vec![vec![]];
                let stride = if ci == 0 { 1 } else { 7 };
                let mut p = 1; while p < total { cutsets.push(vec![p]); p += stride; }
                cutsets.push((1..total).collect());
                for _ in 0..6 { let k = 2 + rng.below(5); let mut cs: Vec<usize> = (0..k).map(|_| 1 + rng.below(total as u64 - 1) as usize).collect(); cs.sort(); cs.dedup(); cutsets.push(cs); }
                if let Some(f) = check_session(cfg, name, cmds, &cutsets).await { return Some(f); }
            }
        }
        None
    })
}

pub fn search(_pid: &str, oid: &str, seed: u64) -> Option<Found> {
    let rt = tokio::runtime::Builder::new_current_thread().enable_all().build().ok()?;
    let local = tokio::task::LocalSet::new();
    let oid = oid.to_string();
    local.block_on(&rt, async move {
        if oid.contains("try_fast_get") || oid.contains("try_fast_set") {
            return check_garbage_single(if oid.contains("try_fast_get") { "get" } else { "set" }).await;
        }
        if oid.contains("assert#4") {
            let which = if oid.contains("collect_get_keys") { "get" } else if oid.contains("collect_set_pairs") { "set" } else { "both" };
            return check_garbage(which).await;
        }
        let mut rng = Rng::new(seed + 4);
        let cfgs = configs();
        if oid.contains("safety") || oid.contains("parse") { for cfg in &cfgs { if let Some(f) = check_malformed(cfg).await { return Some(f); } } }
        let sess = sessions(&mut rng);
        for (ci, cfg) in cfgs.iter().enumerate() {
            for (name, cmds) in &sess {
                let total: usize = cmds.iter().map(|c| c.len()).sum();
                let mut cutsets: Vec<Vec<usize>> = vec![vec![]];
                // every single cut position (first config; sampled for the others and for big streams), byte by byte, random multi-cuts
                if total <= 1200 {
                    let stride = if ci == 0 { 1 } else { 5 + ci };
                    let mut p = 1 + (ci % stride); while p < total { cutsets.push(vec![p]); p += stride; }
                    if ci < 2 { cutsets.push((1..total).collect()); }
                } else {
                    for _ in 0..12 { cutsets.push(vec![rng.below(total as u64) as usize]); }
                    cutsets.push(vec![1, 2, 3, 8191, 8192, 8193, total - 1].into_iter().filter(|&x| x < total).collect());
                }
                for _ in 0..10 { let k = 2 + rng.below(6); let mut cs: Vec<usize> = (0..k).map(|_| 1 + rng.below(total as u64 - 1) as usize).collect(); cs.sort(); cs.dedup(); cutsets.push(cs); }
                // cuts exactly at and around command boundaries
                let mut b = 0; let mut bounds = Vec::new(); for c in cmds.iter() { b += c.len(); if b < total { bounds.push(b); } }
                cutsets.push(bounds.clone());
                cutsets.push(bounds.iter().map(|x| x + 1).filter(|&x| x < total).collect());
                cutsets.push(bounds.iter().map(|x| x - 1).collect());
                if let Some(f) = check_session(cfg, name, cmds, &cutsets).await { return Some(f); }
            }
        }
        for cfg in &cfgs { if let Some(f) = check_malformed(cfg).await { return Some(f); } }
        None
    })
}
