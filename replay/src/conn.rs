//! Units `conn` / `batch_collect` (C04) through the hook `redis_sim::production::verif_serve_connection`: the REAL
//! OptimizedConnectionHandler runs over an in-memory duplex stream.
//!  default battery: byte streams of well-formed commands, pipelined and cut into separate writes at EVERY position, at random
//!    positions, byte by byte, under several ConnectionConfigs (tiny read buffer, batching thresholds): exactly one reply per
//!    command, in order, byte-identical to the replies obtained by sending the same commands one at a time to a fresh server;
//!    malformed frames get an error reply or a clean close - never a hang (timeouts), a panic or torn output.
//!  obligation ids containing "assert#4": exactly the known garbage-acceptance inputs (14-vs-13 header skew of the batch collectors).
use crate::rng::Rng;
use crate::Found;
use redis_sim::production::{verif_serve_connection, ConnectionConfig, ShardedActorState};
use std::time::Duration;
use tokio::io::{AsyncReadExt, AsyncWriteExt, DuplexStream};
use tokio::task::JoinHandle;

fn show(b: &[u8]) -> String {
    let s: String = b.iter().map(|&c| match c { b'\r' => "\\r".to_string(), b'\n' => "\\n".to_string(), 0x20..=0x7e => (c as char).to_string(), _ => format!("\\x{:02x}", c) }).collect();
    if s.len() > 600 { format!("{}..({} bytes)", &s[..300], b.len()) } else { s }
}

fn cmd(parts: &[&[u8]]) -> Vec<u8> {
    let mut o = format!("*{}\r\n", parts.len()).into_bytes();
    for p in parts { o.extend_from_slice(format!("${}\r\n", p.len()).as_bytes()); o.extend_from_slice(p); o.extend_from_slice(b"\r\n"); }
    o
}
fn c(words: &[&str]) -> Vec<u8> { cmd(&words.iter().map(|w| w.as_bytes()).collect::<Vec<_>>()) }

/// length of the first complete RESP value in `b` (independent splitter for the reply stream); None = incomplete; Err = not RESP
fn reply_len(b: &[u8]) -> Result<Option<usize>, String> {
    if b.is_empty() { return Ok(None); }
    let line_end = match b.windows(2).position(|w| w == b"\r\n") { Some(p) => p, None => return if b.len() > 70000 { Err("no CRLF".into()) } else { Ok(None) } };
    let line = &b[1..line_end];
    match b[0] {
        b'+' | b'-' | b':' => Ok(Some(line_end + 2)),
        b'$' => { let n: i64 = std::str::from_utf8(line).ok().and_then(|s| s.parse().ok()).ok_or("bad bulk length")?; if n < 0 { Ok(Some(line_end + 2)) } else { let tot = line_end + 2 + n as usize + 2; if b.len() < tot { Ok(None) } else if &b[tot - 2..tot] != b"\r\n" { Err("bulk not terminated by CRLF".into()) } else { Ok(Some(tot)) } } }
        b'*' => {
            let n: i64 = std::str::from_utf8(line).ok().and_then(|s| s.parse().ok()).ok_or("bad array length")?;
            let mut off = line_end + 2;
            for _ in 0..n.max(0) { match reply_len(&b[off..])? { Some(l) => off += l, None => return Ok(None) } }
            Ok(Some(off))
        }
        other => Err(format!("reply starts with byte {:#04x}", other)),
    }
}

fn split_replies(b: &[u8]) -> Result<(Vec<Vec<u8>>, usize), String> {
    let mut out = Vec::new(); let mut off = 0;
    while off < b.len() { match reply_len(&b[off..])? { Some(l) => { out.push(b[off..off + l].to_vec()); off += l; } None => break } }
    Ok((out, off))
}

#[derive(Clone, Debug)]
struct Cfg { shards: usize, read_buffer_size: usize, min_pipeline_buffer: usize, batch_threshold: usize }
fn cfg_text(c: &Cfg) -> String { format!("{} shard(s), ConnectionConfig{{read_buffer_size={}, min_pipeline_buffer={}, batch_threshold={}}}", c.shards, c.read_buffer_size, c.min_pipeline_buffer, c.batch_threshold) }

struct Server { client: DuplexStream, task: JoinHandle<()>, inbuf: Vec<u8> }

fn start(cfg: &Cfg) -> Server { start_on(cfg, ShardedActorState::with_shards(cfg.shards)) }

/// a connection on an existing (shared) store
fn start_on(cfg: &Cfg, state: ShardedActorState) -> Server {
    let (client, server) = tokio::io::duplex(1 << 20);
    let cc = ConnectionConfig { max_buffer_size: 64 * 1024 * 1024, read_buffer_size: cfg.read_buffer_size, min_pipeline_buffer: cfg.min_pipeline_buffer, batch_threshold: cfg.batch_threshold };
    let task = tokio::task::spawn_local(async move { verif_serve_connection(server, state, cc).await });
    Server { client, task, inbuf: Vec::new() }
}

const STEP: Duration = Duration::from_millis(1500);

impl Server {
    /// read until `n` complete replies are buffered; Err = timeout / EOF / not RESP
    async fn read_replies(&mut self, n: usize) -> Result<Vec<Vec<u8>>, String> {
        let mut buf = vec![0u8; 65536];
        loop {
            let (r, used) = split_replies(&self.inbuf).map_err(|e| format!("reply stream is not RESP ({}): {}", e, show(&self.inbuf)))?;
            if r.len() >= n { let out = r[..n].to_vec(); let used_n: usize = out.iter().map(|x| x.len()).sum(); let _ = used; self.inbuf.drain(..used_n); return Ok(out); }
            match tokio::time::timeout(STEP, self.client.read(&mut buf)).await {
                Err(_) => return Err(format!("timeout: {} of {} replies after {:?}; received so far: {}", r.len(), n, STEP, show(&self.inbuf))),
                Ok(Ok(0)) => return Err(format!("connection closed by the server after {} of {} replies; received: {}", r.len(), n, show(&self.inbuf))),
                Ok(Ok(k)) => self.inbuf.extend_from_slice(&buf[..k]),
                Ok(Err(e)) => return Err(format!("read error {}", e)),
            }
        }
    }
    async fn settle(&self, yields: usize) { for _ in 0..yields { tokio::task::yield_now().await; } }
    /// close our write side and wait for the handler to finish: Err = hang or panic
    async fn finish(mut self) -> Result<Vec<u8>, String> {
        let _ = self.client.shutdown().await;
        let mut rest = Vec::new();
        match tokio::time::timeout(STEP, self.client.read_to_end(&mut rest)).await { Err(_) => return Err("the handler does not terminate after the client closed its side (hang)".into()), Ok(_) => {} }
        match tokio::time::timeout(STEP, &mut self.task).await {
            Err(_) => Err("the handler task does not finish after the client closed (hang)".into()),
            Ok(Err(e)) if e.is_panic() => Err("the handler panicked".into()),
            Ok(_) => { let mut all = self.inbuf.clone(); all.extend_from_slice(&rest); Ok(all) }
        }
    }
}

/// replies of the commands sent one at a time (each reply awaited before the next command is written) to a fresh server
async fn reference(cfg: &Cfg, cmds: &[Vec<u8>]) -> Result<Vec<Vec<u8>>, String> {
    let mut s = start(cfg);
    let mut out = Vec::new();
    for (i, c) in cmds.iter().enumerate() {
        s.client.write_all(c).await.map_err(|e| e.to_string())?;
        let r = s.read_replies(1).await.map_err(|e| format!("command #{} {} sent alone: {}", i, show(c), e))?;
        out.push(r[0].clone());
    }
    let _ = s.finish().await;
    Ok(out)
}

/// the same byte stream cut at `cuts` into separate writes (the handler gets to run between two writes)
async fn pipelined(cfg: &Cfg, stream: &[u8], cuts: &[usize], n: usize) -> Result<Vec<Vec<u8>>, String> {
    let mut s = start(cfg);
    let mut prev = 0;
    for &cut in cuts.iter().chain(std::iter::once(&stream.len())) {
        if cut > prev { s.client.write_all(&stream[prev..cut]).await.map_err(|e| e.to_string())?; s.settle(6).await; prev = cut; }
    }
    let mut replies = s.read_replies(n).await?;
    // nothing but the PONG of a sentinel may follow
    s.client.write_all(b"*1\r\n$4\r\nPING\r\n").await.map_err(|e| e.to_string())?;
    let sentinel = s.read_replies(1).await.map_err(|e| format!("after all replies, sentinel PING: {}", e))?;
    if sentinel[0] != b"+PONG\r\n" { replies.push(sentinel[0].clone()); }
    let tail = s.finish().await?;
    if !tail.is_empty() { replies.push(tail); }
    Ok(replies)
}

async fn check_session(cfg: &Cfg, name: &str, cmds: &[Vec<u8>], cutsets: &[Vec<usize>]) -> Option<Found> {
    let stream: Vec<u8> = cmds.concat();
    let describe = |cuts: &[usize]| format!("{}; session '{}': {} commands, {} bytes: {}; written in {} pieces (cut at byte offsets {:?})", cfg_text(cfg), name, cmds.len(), stream.len(), show(&stream), cuts.len() + 1, if cuts.len() > 12 { &cuts[..12] } else { cuts });
    let want = match reference(cfg, cmds).await { Ok(w) => w, Err(e) => return Some(Found { input: format!("{}; session '{}' sent one command at a time: {}", cfg_text(cfg), name, show(&stream)), observed: e, required: "one reply per command".into() }) };
    for cuts in cutsets {
        match pipelined(cfg, &stream, cuts, cmds.len()).await {
            Err(e) => return Some(Found { input: describe(cuts), observed: e, required: format!("exactly {} replies, in order: {}", cmds.len(), show(&want.concat())) }),
            Ok(got) => if got != want {
                let i = (0..want.len().max(got.len())).find(|&i| got.get(i) != want.get(i)).unwrap_or(0);
                return Some(Found { input: describe(cuts), observed: format!("{} replies; reply #{} (to {}) is {}", got.len(), i, cmds.get(i).map(|c| show(c)).unwrap_or_else(|| "nothing: surplus reply".into()), got.get(i).map(|g| show(g)).unwrap_or_else(|| "missing".into())), required: format!("exactly {} replies, in order, equal to the one-at-a-time replies; reply #{} = {}", want.len(), i, want.get(i).map(|g| show(g)).unwrap_or_else(|| "none".into())) });
            }
        }
    }
    None
}

fn sessions(rng: &mut Rng) -> Vec<(String, Vec<Vec<u8>>)> {
    let mut v: Vec<(String, Vec<Vec<u8>>)> = Vec::new();
    v.push(("mixed".into(), vec![c(&["SET", "k", "v1"]), c(&["GET", "k"]), c(&["INCR", "n"]), c(&["INCR", "n"]), c(&["GET", "n"]), c(&["PING"]), c(&["MGET", "k", "n", "zz"]), c(&["DEL", "k"]), c(&["GET", "k"]), c(&["EXISTS", "n", "k"]), c(&["APPEND", "n", "x"]), c(&["INCR", "n"]), c(&["ECHO", "hi"])]));
    v.push(("pipelined GETs (batch collector territory)".into(), { let mut s = vec![c(&["SET", "a", "1"]), c(&["SET", "bb", "22"])]; for _ in 0..4 { s.push(c(&["GET", "a"])); s.push(c(&["GET", "bb"])); s.push(c(&["get", "nokey"])); } s }));
    v.push(("pipelined SETs then GETs".into(), { let mut s = Vec::new(); for i in 0..6 { s.push(c(&["SET", &format!("key{}", i), &format!("val{}", i)])); } for i in 0..6 { s.push(c(&["GET", &format!("key{}", i)])); } s.push(c(&["set", "key0", "again"])); s.push(c(&["GET", "key0"])); s }));
    v.push(("binary and empty values".into(), vec![cmd(&[b"SET", b"b", b"\r\n$3\r\nGET\r\n"]), c(&["GET", "b"]), cmd(&[b"SET", b"e", b""]), c(&["GET", "e"]), cmd(&[b"SET", b"", b"emptykey"]), cmd(&[b"GET", b""]), cmd(&[b"SET", b"z", b"\x00\xff*2\r\n"]), c(&["STRLEN", "z"]), c(&["GET", "z"])]));
    v.push(("errors in the middle".into(), vec![c(&["SET", "s", "abc"]), c(&["INCR", "s"]), c(&["LPUSH", "s", "x"]), c(&["NOSUCHCOMMAND", "a"]), c(&["GET"]), c(&["GET", "s"]), c(&["RPUSH", "l", "1", "2"]), c(&["GET", "l"]), c(&["LRANGE", "l", "0", "-1"])]));
    v.push(("transaction".into(), vec![c(&["MULTI"]), c(&["SET", "t", "1"]), c(&["INCR", "t"]), c(&["GET", "t"]), c(&["EXEC"]), c(&["GET", "t"]), c(&["MULTI"]), c(&["SET", "t", "9"]), c(&["DISCARD"]), c(&["GET", "t"])]));
    let big = "B".repeat(20_000);
    v.push(("value larger than the read buffer".into(), vec![c(&["SET", "big", &big]), c(&["STRLEN", "big"]), c(&["GET", "big"]), c(&["SET", "small", "s"]), c(&["GET", "small"])]));
    // seeded random sessions
    for i in 0..6 {
        let n = 6 + rng.below(14);
        let keys = ["a", "b", "key:1", "n", "long_key_name_0123456789"];
        let mut s = Vec::new();
        for j in 0..n {
            let k = *rng.pick(&keys);
            s.push(match rng.below(10) { 0 | 1 | 2 => c(&["GET", k]), 3 | 4 => c(&["SET", k, &format!("v{}", j)]), 5 => c(&["INCR", "n"]), 6 => c(&["DEL", k]), 7 => c(&["PING"]), 8 => c(&["MGET", k, "a"]), _ => c(&["EXISTS", k]) });
        }
        v.push((format!("random {}", i), s));
    }
    v
}

fn configs() -> Vec<Cfg> {
    vec![
        Cfg { shards: 1, read_buffer_size: 8192, min_pipeline_buffer: 60, batch_threshold: 2 },
        Cfg { shards: 4, read_buffer_size: 8192, min_pipeline_buffer: 60, batch_threshold: 2 },
        Cfg { shards: 1, read_buffer_size: 7, min_pipeline_buffer: 60, batch_threshold: 2 },
        Cfg { shards: 4, read_buffer_size: 64, min_pipeline_buffer: 1, batch_threshold: 1 },
        Cfg { shards: 1, read_buffer_size: 8192, min_pipeline_buffer: 0, batch_threshold: 3 },
    ]
}

/// malformed input: (name, bytes, must_reply): must_reply = the frame is complete and invalid, so an error reply or a close is due while
/// the connection is still open; otherwise (could be a prefix of something longer) only "no hang / no panic / no torn output after close"
fn malformed() -> Vec<(&'static str, Vec<u8>, bool)> {
    let pad = vec![b'p'; 48];
    let mut v: Vec<(&'static str, Vec<u8>, bool)> = vec![
        ("negative bulk length $-2", b"$-2\r\n".to_vec(), true),
        ("negative bulk length inside a command", b"*2\r\n$3\r\nGET\r\n$-2\r\n".to_vec(), true),
        ("negative array length *-5", b"*-5\r\n".to_vec(), true),
        // the handler treats it as the start of a (never completed) frame and waits for elements: no reply is due while the client keeps the connection open
        ("array length i64::MAX", b"*9223372036854775807\r\n".to_vec(), false),
        ("bulk length u64::MAX", [b"$18446744073709551615\r\n".to_vec(), pad.clone()].concat(), true),
        ("GET with key length u64::MAX", [b"*2\r\n$3\r\nGET\r\n$18446744073709551615\r\n".to_vec(), pad.clone()].concat(), true),
        ("GET with a doubled $ and key length u64::MAX", [b"*2\r\n$3\r\nGET\r\n$$18446744073709551615\r\n".to_vec(), pad.clone()].concat(), true),
        ("SET with value length u64::MAX", [b"*3\r\n$3\r\nSET\r\n$1\r\nk\r\n$18446744073709551615\r\n".to_vec(), pad.clone()].concat(), true),
        ("bulk length i64::MAX", [b"*2\r\n$3\r\nGET\r\n$9223372036854775807\r\n".to_vec(), pad.clone()].concat(), false),
        ("non-numeric length", b"*2\r\n$3\r\nGET\r\n$abc\r\nk\r\n".to_vec(), true),
        ("unknown type byte", b"!hello\r\n".to_vec(), true),
        // like Redis itself the decoder skips the two bytes after a bulk without looking at them: GET k is executed
        ("bulk not terminated by CRLF", b"*2\r\n$3\r\nGET\r\n$1\r\nkXX".to_vec(), false),
        ("inline garbage", b"hello world\r\n".to_vec(), false),
        ("empty array", b"*0\r\n".to_vec(), false),
        ("nested array as command", b"*1\r\n*1\r\n$4\r\nPING\r\n".to_vec(), true),
        ("integer as command", b":1\r\n".to_vec(), true),
        ("truncated command", b"*2\r\n$3\r\nGET\r\n$5\r\nab".to_vec(), false),
        ("lone CR", b"*2\r\n$3\r\nGET\r".to_vec(), false),
        ("binary noise", vec![0u8, 255, 13, 10, 42, 36, 13, 13, 10, 10], false),
    ];
    v.push(("huge declared array of huge bulks", b"*1000000\r\n$1000000000\r\n".to_vec(), false));
    v
}

async fn check_malformed(cfg: &Cfg) -> Option<Found> {
    for (name, bytes, must_reply) in malformed() {
        for prefix in [&b""[..], &b"*1\r\n$4\r\nPING\r\n"[..]] {
            let mut s = start(cfg);
            let mut input = prefix.to_vec(); input.extend_from_slice(&bytes);
            if s.client.write_all(&input).await.is_err() { continue; }
            let expect = if prefix.is_empty() { 1 } else { 2 };
            let ctx = format!("{}; malformed input ({}): {}", cfg_text(cfg), name, show(&input));
            if must_reply {
                match s.read_replies(expect).await {
                    Ok(r) => { let last = r.last().cloned().unwrap_or_default(); if last.first() != Some(&b'-') { if std::env::var("VERIF_CONN_ALL").is_ok() { eprintln!("MALFORMED {} | reply {}", ctx, show(&last)); } else { return Some(Found { input: ctx, observed: format!("reply {}", show(&last)), required: "an error reply or a clean close".into() }); } } }
                    Err(e) if e.starts_with("connection closed") => {}
                    Err(e) => { if std::env::var("VERIF_CONN_ALL").is_ok() { eprintln!("MALFORMED {} | {}", ctx, e); } else { return Some(Found { input: ctx, observed: e, required: "an error reply or a clean close - never a hang".into() }); } }
                }
            }
            match s.finish().await {
                Err(e) => return Some(Found { input: ctx, observed: e, required: "the connection ends cleanly when the client closes: no hang, no panic".into() }),
                Ok(all) => if let Err(e) = split_replies(&all).and_then(|(_, used)| if used == all.len() { Ok(()) } else { Err("torn reply at the end".to_string()) }) { return Some(Found { input: ctx, observed: format!("output {} : {}", show(&all), e), required: "only complete RESP replies".into() }); },
            }
        }
    }
    None
}

/// the two OPEN known findings: garbage that is not RESP is accepted as GET / SET by the batch collectors (HEADER_LEN 14 vs a 13-byte literal)
async fn check_garbage(which: &str) -> Option<Found> {
    let cfg = Cfg { shards: 1, read_buffer_size: 8192, min_pipeline_buffer: 60, batch_threshold: 2 };
    let g_get = b"*2\r\n$3\r\nGET\r\nX$1\rYaZZ".to_vec();
    let g_set = b"*3\r\n$3\r\nSET\r\nX$1\rYkZZ$1\rYvZZ".to_vec();
    let mut cases: Vec<(&str, Vec<u8>, Vec<u8>)> = Vec::new();
    if which != "set" { cases.push(("collect_get_keys", c(&["SET", "a", "1"]), g_get.repeat(3))); }
    if which != "get" { cases.push(("collect_set_pairs", c(&["GET", "k"]), g_set.repeat(3))); }
    for (what, setup, garbage) in cases {
        let mut s = start(&cfg);
        if s.client.write_all(&setup).await.is_err() { continue; }
        let first = s.read_replies(1).await.ok();
        if s.client.write_all(&garbage).await.is_err() { continue; }
        let ctx = format!("{}; after {} (reply {}), one write of {} bytes that are not RESP frames: {}", cfg_text(&cfg), show(&setup), first.as_ref().map(|r| show(&r[0])).unwrap_or_default(), garbage.len(), show(&garbage));
        let got = s.read_replies(1).await;
        let more = if matches!(&got, Ok(r) if r[0].first() != Some(&b'-')) { let _ = s.read_replies(2).await; 2 } else { 0 };
        let after = { let _ = s.client.write_all(&c(&["GET", "k"])).await; s.read_replies(1).await.ok().map(|r| show(&r[0])) };
        match got {
            Ok(r) if r[0].first() == Some(&b'-') => {}
            Err(e) if e.starts_with("connection closed") => {}
            Ok(r) => { return Some(Found { input: ctx, observed: format!("{} treats the garbage as commands: first reply {} ({} more replies follow); a following GET k replies {:?}", what, show(&r[0]), more, after), required: "a protocol error reply (or a close): bytes that are not a well-formed frame are never executed as a command".into() }); }
            Err(e) => return Some(Found { input: ctx, observed: format!("{}: {}", what, e), required: "a protocol error reply (or a close)".into() }),
        }
    }
    None
}


/// single-frame variant of the same garbage (try_fast_get / try_fast_set, assert#2): ONE frame alone in a write, below
/// min_pipeline_buffer, so it reaches the single-command fast path instead of the batch collectors
async fn check_garbage_single(which: &str) -> Option<Found> {
    let cfg = Cfg { shards: 1, read_buffer_size: 8192, min_pipeline_buffer: 60, batch_threshold: 2 };
    let mut cases: Vec<(&str, Vec<u8>, Vec<u8>, Vec<u8>)> = Vec::new();
    if which != "set" { cases.push(("try_fast_get", c(&["SET", "a", "1"]), b"*2\r\n$3\r\nGET\r\nX$1\rYaZZ".to_vec(), c(&["GET", "a"]))); }
    if which != "get" { cases.push(("try_fast_set", c(&["GET", "k"]), b"*3\r\n$3\r\nSET\r\nX$1\rYkZZ$1\rYvZZ".to_vec(), c(&["GET", "k"]))); }
    for (what, setup, garbage, probe) in cases {
        let mut s = start(&cfg);
        if s.client.write_all(&setup).await.is_err() { continue; }
        let first = s.read_replies(1).await.ok();
        if s.client.write_all(&garbage).await.is_err() { continue; }
        let ctx = format!("{}; after {} (reply {}), ONE write of {} bytes (below min_pipeline_buffer) that is not a RESP frame: {}", cfg_text(&cfg), show(&setup), first.as_ref().map(|r| show(&r[0])).unwrap_or_default(), garbage.len(), show(&garbage));
        let got = s.read_replies(1).await;
        match got {
            Ok(r) if r[0].first() == Some(&b'-') => {}
            Err(e) if e.starts_with("connection closed") => {}
            Ok(r) => { let _ = s.client.write_all(&probe).await; let after = s.read_replies(1).await.ok().map(|r| show(&r[0])); return Some(Found { input: ctx, observed: format!("{} executes the garbage as a command: reply {}; a following {} replies {:?}", what, show(&r[0]), show(&probe), after), required: "a protocol error reply (or a close): bytes that are not a well-formed frame are never executed as a command".into() }); }
            Err(e) => return Some(Found { input: ctx, observed: format!("{}: {}", what, e), required: "a protocol error reply (or a close)".into() }),
        }
    }
    None
}


// ======================= conn_txn (C05 / C04): connection-level MULTI / EXEC / DISCARD / WATCH, two connections on one store =======================
#[derive(Clone)]
enum Exp { Exact(&'static [u8]), Bytes(Vec<u8>), Error, Nil }
fn exp_text(e: &Exp) -> String { match e { Exp::Exact(b) => show(b), Exp::Bytes(b) => show(b), Exp::Error => "an error reply".into(), Exp::Nil => "nil ($-1 or *-1)".into() } }
fn exp_ok(e: &Exp, got: &[u8]) -> bool { match e { Exp::Exact(b) => got == *b, Exp::Bytes(b) => got == &b[..], Exp::Error => got.first() == Some(&b'-'), Exp::Nil => got == b"$-1\r\n" || got == b"*-1\r\n" } }

fn txn_scripts() -> Vec<(&'static str, Vec<(usize, Vec<u8>, Exp)>)> {
    let ok = Exp::Exact(b"+OK\r\n"); let q = Exp::Exact(b"+QUEUED\r\n");
    let mut v: Vec<(&'static str, Vec<(usize, Vec<u8>, Exp)>)> = Vec::new();
    // WATCH of every value type, changed by the OTHER connection before EXEC -> nil, nothing applied
    for (name, create, change) in [
        ("list", c(&["RPUSH", "w", "a"]), c(&["RPUSH", "w", "b"])), ("string", c(&["SET", "w", "1"]), c(&["SET", "w", "2"])), ("hash", c(&["HSET", "w", "f", "v"]), c(&["HSET", "w", "f", "v2"])),
        ("set", c(&["SADD", "w", "m"]), c(&["SADD", "w", "n"])), ("zset", c(&["ZADD", "w", "1", "m"]), c(&["ZADD", "w", "2", "m"])), ("list shrinking", c(&["RPUSH", "w", "a", "b"]), c(&["LPOP", "w"])),
        ("key deleted", c(&["SET", "w", "1"]), c(&["DEL", "w"])), ("absent key created", c(&["PING"]), c(&["RPUSH", "w", "x"])), ("type changed", c(&["SET", "w", "1"]), c(&["DEL", "w"])),
    ] {
        let label: &'static str = Box::leak(format!("WATCH on a {} changed by another connection", name).into_boxed_str());
        let mut st = vec![(0usize, create.clone(), Exp::Bytes(Vec::new())), (0, c(&["WATCH", "w"]), ok.clone()), (1, change.clone(), Exp::Bytes(Vec::new()))];
        if name == "type changed" { st.push((1, c(&["RPUSH", "w", "1"]), Exp::Bytes(Vec::new()))); }
        st.extend(vec![(0, c(&["MULTI"]), ok.clone()), (0, c(&["SET", "x", "1"]), q.clone()), (0, c(&["EXEC"]), Exp::Nil), (1, c(&["GET", "x"]), Exp::Exact(b"$-1\r\n")), (0, c(&["GET", "x"]), Exp::Exact(b"$-1\r\n")),
            // the watch is gone after EXEC: the next transaction applies
            (0, c(&["MULTI"]), ok.clone()), (0, c(&["SET", "x", "2"]), q.clone()), (0, c(&["EXEC"]), Exp::Exact(b"*1\r\n+OK\r\n")), (1, c(&["GET", "x"]), Exp::Exact(b"$1\r\n2\r\n"))]);
        v.push((label, st));
        // control: the other connection touches ANOTHER key -> EXEC applies
        let label2: &'static str = Box::leak(format!("WATCH on a {} not changed (another key is written)", name).into_boxed_str());
        v.push((label2, vec![(0, create, Exp::Bytes(Vec::new())), (0, c(&["WATCH", "w"]), ok.clone()), (1, c(&["SET", "other", "1"]), ok.clone()), (0, c(&["MULTI"]), ok.clone()), (0, c(&["SET", "x", "1"]), q.clone()), (0, c(&["EXEC"]), Exp::Exact(b"*1\r\n+OK\r\n")), (1, c(&["GET", "x"]), Exp::Exact(b"$1\r\n1\r\n"))]));
    }
    v.push(("queued commands are invisible to the other connection until EXEC; results in order", vec![
        (0, c(&["MULTI"]), ok.clone()), (0, c(&["SET", "q", "abc"]), q.clone()), (0, c(&["INCR", "q"]), q.clone()), (0, c(&["GET", "q"]), q.clone()), (0, c(&["RPUSH", "ql", "1", "2"]), q.clone()),
        (1, c(&["GET", "q"]), Exp::Exact(b"$-1\r\n")), (1, c(&["EXISTS", "ql"]), Exp::Exact(b":0\r\n")),
        (0, c(&["EXEC"]), Exp::Exact(b"*4\r\n+OK\r\n-ERR value is not an integer or out of range\r\n$3\r\nabc\r\n:2\r\n")), (1, c(&["GET", "q"]), Exp::Exact(b"$3\r\nabc\r\n")), (1, c(&["LLEN", "ql"]), Exp::Exact(b":2\r\n"))]));
    v.push(("DISCARD, UNWATCH, state-machine errors", vec![
        (0, c(&["EXEC"]), Exp::Error), (0, c(&["DISCARD"]), Exp::Error), (0, c(&["SET", "a", "1"]), ok.clone()), (0, c(&["WATCH", "a"]), ok.clone()), (0, c(&["MULTI"]), ok.clone()), (0, c(&["MULTI"]), Exp::Error), (0, c(&["WATCH", "a"]), Exp::Error),
        (0, c(&["SET", "a", "2"]), q.clone()), (0, c(&["DISCARD"]), ok.clone()), (0, c(&["GET", "a"]), Exp::Exact(b"$1\r\n1\r\n")), (0, c(&["EXEC"]), Exp::Error),
        (0, c(&["WATCH", "a"]), ok.clone()), (1, c(&["SET", "a", "9"]), ok.clone()), (0, c(&["UNWATCH"]), ok.clone()), (0, c(&["MULTI"]), ok.clone()), (0, c(&["INCR", "a"]), q.clone()), (0, c(&["EXEC"]), Exp::Exact(b"*1\r\n:10\r\n")),
        (0, c(&["MULTI"]), ok.clone()), (0, c(&["EXEC"]), Exp::Exact(b"*0\r\n")), (1, c(&["MULTI"]), ok.clone()), (0, c(&["SET", "a", "0"]), ok.clone()), (1, c(&["INCR", "a"]), q.clone()), (1, c(&["EXEC"]), Exp::Exact(b"*1\r\n:1\r\n"))]));
    v.push(("two interleaved transactions on two connections", vec![
        (0, c(&["MULTI"]), ok.clone()), (1, c(&["MULTI"]), ok.clone()), (0, c(&["RPUSH", "t", "c0"]), q.clone()), (1, c(&["RPUSH", "t", "c1"]), q.clone()), (1, c(&["EXEC"]), Exp::Exact(b"*1\r\n:1\r\n")), (0, c(&["EXEC"]), Exp::Exact(b"*1\r\n:2\r\n")),
        (0, c(&["LRANGE", "t", "0", "-1"]), Exp::Exact(b"*2\r\n$2\r\nc1\r\n$2\r\nc0\r\n"))]));
    v
}

// ---------- C05: WATCH on connection A, the key is changed (or not) by connection B between WATCH and EXEC ----------
// Every value type; for collections every KIND of change (tail-only, head-only, middle, element/score/field value, type change with
// the same flat contents, delete, create, delete + recreate) and the controls (B does nothing / reads only / writes the same value /
// changes and changes back).  The oracle does not look at the handler's WATCH machinery: connection B reads the key (TYPE + the full
// contents) before and after its own commands; "the value differs" = type or contents (lists: as a sequence; sets / hashes / sorted
// sets: as a set of members / field-value / member-score pairs) differ.  differs -> EXEC is nil and nothing is applied; otherwise EXEC
// applies everything: one result per queued command and all effects visible.

#[derive(Clone)]
enum Chg {
    Cmds(Vec<Vec<u8>>),
    /// a command built from the item listed at a position of B's read (pos 0 = first, 1 = middle, 2 = last; stride 2 = pairs)
    Listed { pos: u8, stride: usize, mk: fn(&[u8]) -> Vec<Vec<u8>> },
}
#[derive(Clone)]
struct W2 { ty: &'static str, label: String, setup: Vec<Vec<u8>>, change: Chg, changed: bool }

fn cs(cmds: &[&[&str]]) -> Vec<Vec<u8>> { cmds.iter().map(|w| c(w)).collect() }

fn reply_items(reply: &[u8]) -> Vec<Vec<u8>> {
    if reply.first() != Some(&b'*') { return vec![reply.to_vec()]; }
    let hdr = match reply.windows(2).position(|w| w == b"\r\n") { Some(p) => p + 2, None => return vec![reply.to_vec()] };
    let mut out = Vec::new(); let mut off = hdr;
    while off < reply.len() { match reply_len(&reply[off..]) { Ok(Some(l)) => { out.push(reply[off..off + l].to_vec()); off += l; } _ => break } }
    out
}
fn bulk_payload(raw: &[u8]) -> Vec<u8> {
    match raw.windows(2).position(|w| w == b"\r\n") { Some(p) if raw.len() >= p + 4 => raw[p + 2..raw.len() - 2].to_vec(), _ => raw.to_vec() }
}
fn reader_for(ty: &[u8]) -> Vec<u8> {
    match ty { b"+list\r\n" => c(&["LRANGE", "w", "0", "-1"]), b"+set\r\n" => c(&["SMEMBERS", "w"]), b"+hash\r\n" => c(&["HGETALL", "w"]), b"+zset\r\n" => c(&["ZRANGE", "w", "0", "-1", "WITHSCORES"]), _ => c(&["GET", "w"]) }
}
/// the value as the property means it: type + contents (unordered types: sorted units)
fn canon(ty: &[u8], items: &[Vec<u8>]) -> Vec<Vec<u8>> {
    let mut units: Vec<Vec<u8>> = match ty { b"+hash\r\n" | b"+zset\r\n" => items.chunks(2).map(|p| p.concat()).collect(), _ => items.to_vec() };
    if matches!(ty, b"+set\r\n" | b"+hash\r\n" | b"+zset\r\n") { units.sort(); }
    let mut out = vec![ty.to_vec()]; out.extend(units); out
}
fn relation(a: &[Vec<u8>], b: &[Vec<u8>]) -> &'static str {
    if a == b { "identical" }
    else if a.len() < b.len() && b[..a.len()] == a[..] { "the old contents are a strict PREFIX of the new (tail-only change)" }
    else if b.len() < a.len() && a[..b.len()] == b[..] { "the new contents are a strict PREFIX of the old (tail-only change)" }
    else if a.len() < b.len() && b[b.len() - a.len()..] == a[..] { "the old contents are a strict suffix of the new (head-only change)" }
    else if b.len() < a.len() && a[a.len() - b.len()..] == b[..] { "the new contents are a strict suffix of the old (head-only change)" }
    else if a.len() == b.len() { "same length, an element differs" } else { "different" }
}

fn w2_scenarios() -> Vec<W2> {
    let mut v: Vec<W2> = Vec::new();
    let mut add = |ty: &'static str, label: &str, setup: &[&[&str]], change: &[&[&str]], changed: bool| v.push(W2 { ty, label: label.to_string(), setup: cs(setup), change: Chg::Cmds(cs(change)), changed });
    // strings
    add("string", "APPEND (the old value is a prefix of the new)", &[&["SET", "w", "ab"]], &[&["APPEND", "w", "c"]], true);
    add("string", "overwritten by a prefix of itself", &[&["SET", "w", "abc"]], &[&["SET", "w", "ab"]], true);
    add("string", "SETRANGE in the middle", &[&["SET", "w", "abc"]], &[&["SETRANGE", "w", "1", "X"]], true);
    add("string", "INCR", &[&["SET", "w", "5"]], &[&["INCR", "w"]], true);
    add("string", "set to the empty string", &[&["SET", "w", "abc"]], &[&["SET", "w", ""]], true);
    add("string", "empty string set to something", &[&["SET", "w", ""]], &[&["SET", "w", "a"]], true);
    add("string", "DEL", &[&["SET", "w", "abc"]], &[&["DEL", "w"]], true);
    add("string", "control: the same value written again", &[&["SET", "w", "abc"]], &[&["SET", "w", "abc"]], false);
    add("string", "control: changed and changed back", &[&["SET", "w", "abc"]], &[&["SET", "w", "zzz"], &["SET", "w", "abc"]], false);
    add("string", "control: only read", &[&["SET", "w", "abc"]], &[&["GET", "w"], &["STRLEN", "w"]], false);
    add("string", "control: deleted and recreated with the same value", &[&["SET", "w", "abc"]], &[&["DEL", "w"], &["SET", "w", "abc"]], false);
    add("string", "control: B does nothing", &[&["SET", "w", "abc"]], &[], false);
    // lists
    let l3: &[&[&str]] = &[&["RPUSH", "w", "a", "b", "c"]];
    add("list", "RPUSH of one element (tail-only)", l3, &[&["RPUSH", "w", "d"]], true);
    add("list", "RPUSH of several elements (tail-only)", l3, &[&["RPUSH", "w", "d", "e", "f"]], true);
    add("list", "RPOP leaving two elements (tail-only)", l3, &[&["RPOP", "w"]], true);
    add("list", "two RPOPs leaving one element (tail-only)", l3, &[&["RPOP", "w"], &["RPOP", "w"]], true);
    add("list", "LTRIM to its first element (tail-only)", l3, &[&["LTRIM", "w", "0", "0"]], true);
    add("list", "LPUSH (head-only)", l3, &[&["LPUSH", "w", "z"]], true);
    add("list", "LPOP (head-only)", l3, &[&["LPOP", "w"]], true);
    add("list", "LTRIM dropping the head", l3, &[&["LTRIM", "w", "1", "-1"]], true);
    add("list", "LSET in the middle", l3, &[&["LSET", "w", "1", "X"]], true);
    add("list", "LSET of the last element", l3, &[&["LSET", "w", "-1", "X"]], true);
    add("list", "middle element removed (LTRIM to the head + RPUSH of the old tail)", l3, &[&["LTRIM", "w", "0", "0"], &["RPUSH", "w", "c"]], true);
    add("list", "first and last element swapped", l3, &[&["LSET", "w", "0", "c"], &["LSET", "w", "2", "a"]], true);
    add("list", "emptied by LPOPs (key disappears)", l3, &[&["LPOP", "w"], &["LPOP", "w"], &["LPOP", "w"]], true);
    add("list", "DEL", l3, &[&["DEL", "w"]], true);
    add("list", "one-element list, RPUSH (tail-only)", &[&["RPUSH", "w", "a"]], &[&["RPUSH", "w", "b"]], true);
    add("list", "list of equal elements, RPOP (tail-only)", &[&["RPUSH", "w", "a", "a", "a"]], &[&["RPOP", "w"]], true);
    add("list", "list of equal elements, LPUSH of the same element", &[&["RPUSH", "w", "a", "a", "a"]], &[&["LPUSH", "w", "a"]], true);
    add("list", "control: LSET writing the same element", l3, &[&["LSET", "w", "1", "b"]], false);
    add("list", "control: RPUSH then RPOP", l3, &[&["RPUSH", "w", "d"], &["RPOP", "w"]], false);
    add("list", "control: only read", l3, &[&["LRANGE", "w", "0", "-1"], &["LLEN", "w"]], false);
    add("list", "control: deleted and recreated with the same elements", l3, &[&["DEL", "w"], &["RPUSH", "w", "a", "b", "c"]], false);
    add("list", "control: B does nothing", l3, &[], false);
    // sets
    let s3: &[&[&str]] = &[&["SADD", "w", "a", "b", "c"]];
    add("set", "SPOP", s3, &[&["SPOP", "w"]], true);
    add("set", "all members removed", s3, &[&["SREM", "w", "a", "b", "c"]], true);
    add("set", "DEL", s3, &[&["DEL", "w"]], true);
    add("set", "control: SADD of an existing member", s3, &[&["SADD", "w", "b"]], false);
    add("set", "control: only read", s3, &[&["SMEMBERS", "w"], &["SCARD", "w"], &["SISMEMBER", "w", "a"]], false);
    add("set", "control: one-member set deleted and recreated", &[&["SADD", "w", "a"]], &[&["DEL", "w"], &["SADD", "w", "a"]], false);
    add("set", "control: B does nothing", s3, &[], false);
    // hashes
    let h3: &[&[&str]] = &[&["HSET", "w", "f1", "v1", "f2", "v2", "f3", "v3"]];
    add("hash", "HINCRBY", &[&["HSET", "w", "cnt", "1", "f", "v"]], &[&["HINCRBY", "w", "cnt", "1"]], true);
    add("hash", "a field value extended (old value is a prefix of the new)", h3, &[&["HSET", "w", "f2", "v2x"]], true);
    add("hash", "all fields removed", h3, &[&["HDEL", "w", "f1", "f2", "f3"]], true);
    add("hash", "DEL", h3, &[&["DEL", "w"]], true);
    add("hash", "control: HSET writing the same value", h3, &[&["HSET", "w", "f2", "v2"]], false);
    add("hash", "control: only read", h3, &[&["HGETALL", "w"], &["HLEN", "w"], &["HGET", "w", "f1"]], false);
    add("hash", "control: one-field hash deleted and recreated", &[&["HSET", "w", "f", "v"]], &[&["DEL", "w"], &["HSET", "w", "f", "v"]], false);
    add("hash", "control: B does nothing", h3, &[], false);
    // sorted sets
    let z3: &[&[&str]] = &[&["ZADD", "w", "1", "a", "2", "b", "3", "c"]];
    add("zset", "ZADD of a new highest member (tail-only)", z3, &[&["ZADD", "w", "9", "z"]], true);
    add("zset", "ZADD of two new highest members (tail-only)", z3, &[&["ZADD", "w", "8", "y", "9", "z"]], true);
    add("zset", "ZREM of the highest member (tail-only)", z3, &[&["ZREM", "w", "c"]], true);
    add("zset", "ZADD of a new lowest member (head-only)", z3, &[&["ZADD", "w", "0", "0a"]], true);
    add("zset", "ZREM of the lowest member (head-only)", z3, &[&["ZREM", "w", "a"]], true);
    add("zset", "ZADD of a new member in the middle", z3, &[&["ZADD", "w", "2.5", "m"]], true);
    add("zset", "score change in the middle, same order", z3, &[&["ZADD", "w", "2.5", "b"]], true);
    add("zset", "score change of the highest member (only the last reply element changes)", z3, &[&["ZADD", "w", "4", "c"]], true);
    add("zset", "score change that reorders", z3, &[&["ZADD", "w", "10", "a"]], true);
    add("zset", "ZREM in the middle", z3, &[&["ZREM", "w", "b"]], true);
    add("zset", "DEL", z3, &[&["DEL", "w"]], true);
    add("zset", "one-member sorted set, ZADD of a higher member (tail-only)", &[&["ZADD", "w", "1", "a"]], &[&["ZADD", "w", "2", "b"]], true);
    add("zset", "control: ZADD with the same score", z3, &[&["ZADD", "w", "2", "b"]], false);
    add("zset", "control: only read", z3, &[&["ZRANGE", "w", "0", "-1", "WITHSCORES"], &["ZCARD", "w"], &["ZSCORE", "w", "a"]], false);
    add("zset", "control: deleted and recreated with the same members and scores", z3, &[&["DEL", "w"], &["ZADD", "w", "3", "c", "1", "a", "2", "b"]], false);
    add("zset", "control: B does nothing", z3, &[], false);
    // type changes: every pair, with the same flat contents where the types allow it (list [a,1] / hash {a:1} / sorted set {a:1})
    let makers: [(&'static str, &[&str]); 5] = [("string", &["SET", "w", "a"]), ("list", &["RPUSH", "w", "a", "1"]), ("set", &["SADD", "w", "a"]), ("hash", &["HSET", "w", "a", "1"]), ("zset", &["ZADD", "w", "1", "a"])];
    for (from, mk_from) in makers.iter() { for (to, mk_to) in makers.iter() { if from != to {
        add(from, &format!("type change: {} -> {} (DEL + recreate as the other type)", from, to), &[mk_from], &[&["DEL", "w"], mk_to], true);
    } } }
    add("list", "type change: one-element list [a] -> one-member set {a}", &[&["RPUSH", "w", "a"]], &[&["DEL", "w"], &["SADD", "w", "a"]], true);
    add("set", "type change: one-member set {a} -> one-element list [a]", &[&["SADD", "w", "a"]], &[&["DEL", "w"], &["RPUSH", "w", "a"]], true);
    // absent key
    for (to, mk_to) in makers.iter() { add("none", &format!("absent key created as a {}", to), &[], &[mk_to], true); }
    add("none", "control: absent key, DEL of it", &[], &[&["DEL", "w"]], false);
    add("none", "control: absent key, another key written", &[], &[&["SET", "other", "1"], &["RPUSH", "otherlist", "1"]], false);
    add("none", "control: absent key created and deleted again", &[], &[&["RPUSH", "w", "a"], &["DEL", "w"]], false);
    // changes addressed through what B reads: remove / rewrite the member or field LISTED first / in the middle / last
    fn srem(m: &[u8]) -> Vec<Vec<u8>> { vec![cmd(&[b"SREM", b"w", m])] }
    fn hdel(m: &[u8]) -> Vec<Vec<u8>> { vec![cmd(&[b"HDEL", b"w", m])] }
    fn hset(m: &[u8]) -> Vec<Vec<u8>> { vec![cmd(&[b"HSET", b"w", m, b"CHANGED"])] }
    fn hset_back(m: &[u8]) -> Vec<Vec<u8>> { vec![cmd(&[b"HSET", b"w", m, b"CHANGED"]), cmd(&[b"HDEL", b"w", m]), cmd(&[b"HSET", b"w", m, b"v"])] }
    for (pos, pn) in [(0u8, "first"), (1, "in the middle"), (2, "last")] {
        v.push(W2 { ty: "set", label: format!("SREM of the member listed {} by SMEMBERS", pn), setup: cs(s3), change: Chg::Listed { pos, stride: 1, mk: srem }, changed: true });
        v.push(W2 { ty: "set", label: format!("5-member set, SREM of the member listed {}", pn), setup: cs(&[&["SADD", "w", "m1", "m2", "m3", "m4", "m5"]]), change: Chg::Listed { pos, stride: 1, mk: srem }, changed: true });
        v.push(W2 { ty: "hash", label: format!("HDEL of the field listed {} by HGETALL", pn), setup: cs(h3), change: Chg::Listed { pos, stride: 2, mk: hdel }, changed: true });
        v.push(W2 { ty: "hash", label: format!("HSET (new value) of the field listed {} by HGETALL", pn), setup: cs(h3), change: Chg::Listed { pos, stride: 2, mk: hset }, changed: true });
        v.push(W2 { ty: "hash", label: format!("control: field listed {} rewritten, removed and restored", pn), setup: cs(&[&["HSET", "w", "f1", "v", "f2", "v", "f3", "v"]]), change: Chg::Listed { pos, stride: 2, mk: hset_back }, changed: false });
    }
    v
}

struct W2Run { found: Option<Found>, before: Vec<Vec<u8>>, after: Vec<Vec<u8>>, skipped: bool }

/// placement 0: the change happens between WATCH and MULTI; 1: between MULTI (+ one queued command) and EXEC.
/// watch_mode 0: WATCH w; 1: WATCH a1 w z9 (w in the middle of several keys); 2: WATCH w issued twice; 3: WATCH z9, then WATCH w
async fn run_w2(cfg: &Cfg, sc: &W2, placement: u8, watch_mode: u8) -> W2Run { run_w2_s(cfg, sc, placement, watch_mode, std::env::var("VERIF_WATCH_ORDER").map(|v| v != "0").unwrap_or(true)).await }

/// strict_order: a set / hash whose members are unchanged but LISTED in another order (the hash table was rebuilt) counts as unchanged
/// (the property: same value => EXEC applies).  The pinned tree aborts EXEC there (reported finding, trigger `watch_order_only`); without
/// strict_order either outcome is accepted for exactly that case, as long as it is all-or-nothing.
async fn run_w2_s(cfg: &Cfg, sc: &W2, placement: u8, watch_mode: u8, strict_order: bool) -> W2Run {
    let state = ShardedActorState::with_shards(cfg.shards);
    let mut conns = vec![start_on(cfg, state.clone()), start_on(cfg, state.clone())];
    let mut hist: Vec<String> = Vec::new();
    let mut out = W2Run { found: None, before: Vec::new(), after: Vec::new(), skipped: false };
    let base = format!("{}; two connections (A, B) on one store; watched key 'w' ({}): {}; the change by B happens {}", cfg_text(cfg), sc.ty, sc.label, if placement == 0 { "between A's WATCH and A's MULTI" } else { "after A's MULTI and a queued command, before A's EXEC" });
    macro_rules! send { ($ci:expr, $bytes:expr) => {{
        let who = if $ci == 0 { "A" } else { "B" };
        if conns[$ci].client.write_all($bytes).await.is_err() { out.skipped = true; return out; }
        match conns[$ci].read_replies(1).await {
            Ok(r) => { hist.push(format!("{}: {} -> {}", who, show($bytes), show(&r[0]))); r[0].clone() }
            Err(e) => { out.found = Some(Found { input: format!("{}; history: {} ; then {} sends {}", base, hist.join(" ; "), who, show($bytes)), observed: e, required: "exactly one reply".into() }); return out; }
        }
    }}; }
    macro_rules! expect { ($ci:expr, $bytes:expr, $want:expr, $why:expr) => {{
        let got = send!($ci, $bytes);
        let want: Exp = $want;
        if !exp_ok(&want, &got) {
            out.found = Some(Found { input: format!("{}; history: {}", base, hist.join(" ; ")), observed: format!("reply {} to {}", show(&got), show($bytes)), required: format!("{} ({})", exp_text(&want), $why) });
            return out;
        }
    }}; }
    for s in &sc.setup { let r = send!(1, s); if r.first() == Some(&b'-') { out.skipped = true; return out; } }
    let ty0 = send!(1, &c(&["TYPE", "w"]));
    let rd0 = send!(1, &reader_for(&ty0));
    let items0 = reply_items(&rd0);
    let ok = Exp::Exact(b"+OK\r\n"); let q = Exp::Exact(b"+QUEUED\r\n");
    match watch_mode {
        1 => { expect!(0, &c(&["WATCH", "a1", "w", "z9"]), ok.clone(), "WATCH"); }
        2 => { expect!(0, &c(&["WATCH", "w"]), ok.clone(), "WATCH"); expect!(0, &c(&["WATCH", "w"]), ok.clone(), "WATCH"); }
        3 => { expect!(0, &c(&["WATCH", "z9"]), ok.clone(), "WATCH"); expect!(0, &c(&["WATCH", "w"]), ok.clone(), "WATCH"); }
        _ => { expect!(0, &c(&["WATCH", "w"]), ok.clone(), "WATCH"); }
    }
    if placement == 1 { expect!(0, &c(&["MULTI"]), ok.clone(), "MULTI"); expect!(0, &c(&["SET", "x", "1"]), q.clone(), "queued"); }
    let change: Vec<Vec<u8>> = match &sc.change {
        Chg::Cmds(v) => v.clone(),
        Chg::Listed { pos, stride, mk } => {
            let n = items0.len() / stride;
            if n == 0 { out.skipped = true; return out; }
            let idx = match pos { 0 => 0, 1 => n / 2, _ => n - 1 };
            mk(&bulk_payload(&items0[idx * stride]))
        }
    };
    for ch in &change { let r = send!(1, ch); if r.first() == Some(&b'-') { out.skipped = true; if std::env::var("VERIF_CONN_ALL").is_ok() { eprintln!("W2 SKIP (error reply) {} | {}", base, hist.join(" ; ")); } return out; } }
    let ty1 = send!(1, &c(&["TYPE", "w"]));
    let rd1 = send!(1, &reader_for(&ty1));
    let items1 = reply_items(&rd1);
    let differs = canon(&ty0, &items0) != canon(&ty1, &items1);
    if differs != sc.changed && std::env::var("VERIF_CONN_ALL").is_ok() { eprintln!("W2 NOTE scenario says changed={} but B reads differs={} : {} | {}", sc.changed, differs, base, hist.join(" ; ")); }
    out.before = items0.clone(); out.after = items1.clone();
    let rel = if ty0 != ty1 { format!("type {} -> {}", show(&ty0), show(&ty1)) } else { relation(&items0, &items1).to_string() };
    let base = format!("{}; as read by B: before {} {} / after {} {} [{}]", base, show(&ty0), show(&rd0), show(&ty1), show(&rd1), rel);
    if placement == 0 { expect!(0, &c(&["MULTI"]), ok.clone(), "MULTI"); expect!(0, &c(&["SET", "x", "1"]), q.clone(), "queued"); }
    expect!(0, &c(&["RPUSH", "y", "a"]), q.clone(), "queued");
    expect!(0, &c(&["INCR", "n"]), q.clone(), "queued");
    let order_only = !differs && (ty0 != ty1 || items0 != items1);
    let exec = send!(0, &c(&["EXEC"]));
    let full: &[u8] = b"*3\r\n+OK\r\n:1\r\n:1\r\n";
    let aborted = exp_ok(&Exp::Nil, &exec);
    let verdict_ok = if differs { aborted } else if order_only && !strict_order { aborted || exec == full } else { exec == full };
    if !verdict_ok {
        out.found = Some(Found { input: format!("{}; history: {}", base, hist.join(" ; ")), observed: format!("reply {} to EXEC", show(&exec)),
            required: if differs { "nil ($-1 or *-1): the value of the watched key at EXEC differs from its value at WATCH, EXEC returns nil and applies nothing".into() } else { format!("{}: the watched key has the value it had at WATCH{}, EXEC applies everything, one result per queued command", show(full), if order_only { " (the same members, only listed in another order)" } else { "" }) } });
        return out;
    }
    if aborted {
        expect!(1, &c(&["GET", "x"]), Exp::Exact(b"$-1\r\n"), "the aborted transaction applies nothing");
        expect!(1, &c(&["LLEN", "y"]), Exp::Exact(b":0\r\n"), "the aborted transaction applies nothing");
        expect!(0, &c(&["GET", "n"]), Exp::Exact(b"$-1\r\n"), "the aborted transaction applies nothing");
    } else {
        expect!(1, &c(&["GET", "x"]), Exp::Exact(b"$1\r\n1\r\n"), "the transaction was applied");
        expect!(1, &c(&["LLEN", "y"]), Exp::Exact(b":1\r\n"), "the transaction was applied");
        expect!(0, &c(&["GET", "n"]), Exp::Exact(b"$1\r\n1\r\n"), "the transaction was applied");
    }
    // the key itself is what B left
    let ty2 = send!(0, &c(&["TYPE", "w"]));
    let rd2 = send!(0, &reader_for(&ty2));
    if canon(&ty2, &reply_items(&rd2)) != canon(&ty1, &items1) {
        out.found = Some(Found { input: format!("{}; history: {}", base, hist.join(" ; ")), observed: format!("the watched key now reads {} {}", show(&ty2), show(&rd2)), required: "what connection B left (the transaction does not touch it)".into() });
        return out;
    }
    // EXEC ends the watch either way: the next transaction applies
    expect!(0, &c(&["MULTI"]), ok.clone(), "MULTI");
    expect!(0, &c(&["SET", "x", "2"]), q.clone(), "queued");
    expect!(0, &c(&["EXEC"]), Exp::Exact(b"*1\r\n+OK\r\n"), "EXEC ended the watch: the next transaction applies");
    expect!(1, &c(&["GET", "x"]), Exp::Exact(b"$1\r\n2\r\n"), "applied");
    for (ci, mut s) in conns.into_iter().enumerate() {
        let _ = s.client.write_all(b"*1\r\n$4\r\nPING\r\n").await;
        match s.read_replies(1).await { Ok(r) if r[0] == b"+PONG\r\n" => {} other => { out.found = Some(Found { input: format!("{}; history: {}; sentinel PING on connection {}", base, hist.join(" ; "), ci), observed: format!("{:?}", other.map(|r| show(&r[0]))), required: "+PONG (exactly one reply per command, nothing left over)".into() }); return out; } }
        match s.finish().await { Ok(rest) if rest.is_empty() => {} Ok(rest) => { out.found = Some(Found { input: format!("{}; history: {}", base, hist.join(" ; ")), observed: format!("surplus output on connection {}: {}", ci, show(&rest)), required: "exactly one reply per command".into() }); return out; } Err(e) => { out.found = Some(Found { input: base.clone(), observed: e, required: "a clean end of the connection".into() }); return out; } }
    }
    out
}

/// reported finding (C05): a set / hash that B leaves with the SAME members (SADD of an existing member, HSET of the same value, delete +
/// recreate, grow + shrink) is listed in another order when its hash table was rebuilt; the WATCH snapshot compares the listings
/// element by element, so EXEC aborts although the value did not change
async fn check_watch_order_only(cfg: &Cfg) -> Option<Found> {
    let many: Vec<String> = (0..40).map(|i| format!("tmp{}", i)).collect();
    let mut grow = vec!["SADD", "w"]; grow.extend(many.iter().map(|s| s.as_str()));
    let mut shrink = vec!["SREM", "w"]; shrink.extend(many.iter().map(|s| s.as_str()));
    let scs = vec![
        W2 { ty: "set", label: "control: SADD of an existing member".into(), setup: cs(&[&["SADD", "w", "a", "b", "c"]]), change: Chg::Cmds(cs(&[&["SADD", "w", "b"]])), changed: false },
        W2 { ty: "hash", label: "control: HSET writing the same value".into(), setup: cs(&[&["HSET", "w", "f1", "v1", "f2", "v2", "f3", "v3"]]), change: Chg::Cmds(cs(&[&["HSET", "w", "f2", "v2"]])), changed: false },
        W2 { ty: "set", label: "control: 40 members added and removed again".into(), setup: cs(&[&["SADD", "w", "a", "b", "c"]]), change: Chg::Cmds(cs(&[&grow, &shrink])), changed: false },
        W2 { ty: "set", label: "control: deleted and recreated with the same members".into(), setup: cs(&[&["SADD", "w", "a", "b", "c", "d", "e"]]), change: Chg::Cmds(cs(&[&["DEL", "w"], &["SADD", "w", "a", "b", "c", "d", "e"]])), changed: false },
        W2 { ty: "hash", label: "control: deleted and recreated with the same fields".into(), setup: cs(&[&["HSET", "w", "f1", "v1", "f2", "v2", "f3", "v3", "f4", "v4"]]), change: Chg::Cmds(cs(&[&["DEL", "w"], &["HSET", "w", "f1", "v1", "f2", "v2", "f3", "v3", "f4", "v4"]])), changed: false },
    ];
    for _ in 0..4 { for sc in &scs { let r = run_w2_s(cfg, sc, 0, 0, true).await; if r.found.is_some() { return r.found; } } }
    None
}

async fn check_watch_two_conns(cfg: &Cfg, rng: &mut Rng) -> Option<Found> {
    let scs = w2_scenarios();
    for (i, sc) in scs.iter().enumerate() {
        for placement in [0u8, 1] {
            let wm = if placement == 0 { 0 } else { (i % 4) as u8 };
            let r = run_w2(cfg, sc, placement, wm).await;
            if r.found.is_some() { return r.found; }
        }
    }
    // a NEW member / field whose position in the reply is decided by the hash table: candidates until at least one lands at the very end
    // (old contents = strict prefix of the new) and one elsewhere
    fn sadd(m: &[u8]) -> Vec<Vec<u8>> { vec![cmd(&[b"SADD", b"w", m])] }
    fn hset_new(m: &[u8]) -> Vec<Vec<u8>> { vec![cmd(&[b"HSET", b"w", m, b"nv"])] }
    let grow: Vec<(&'static str, Vec<Vec<u8>>, fn(&[u8]) -> Vec<Vec<u8>>)> = vec![
        ("set", cs(&[&["SADD", "w", "a"]]), sadd), ("set", cs(&[&["SADD", "w", "a", "b", "c"]]), sadd),
        ("hash", cs(&[&["HSET", "w", "f", "v"]]), hset_new), ("hash", cs(&[&["HSET", "w", "f1", "v1", "f2", "v2", "f3", "v3"]]), hset_new),
    ];
    for (ty, setup, mk) in grow {
        let (mut tails, mut others) = (0, 0);
        for k in 0..40u64 {
            if tails >= 2 && others >= 1 && k >= 6 { break; }
            let member = format!("new{}-{}", k, rng.below(1 << 20));
            let sc = W2 { ty, label: format!("a NEW {} '{}' added by B", if ty == "set" { "member" } else { "field" }, member), setup: setup.clone(), change: Chg::Cmds(mk(member.as_bytes())), changed: true };
            let r = run_w2(cfg, &sc, (k % 2) as u8, 0).await;
            if r.found.is_some() { return r.found; }
            if r.before.len() < r.after.len() && r.after[..r.before.len()] == r.before[..] { tails += 1; } else { others += 1; }
        }
    }
    None
}

async fn check_conn_txn(cfg: &Cfg) -> Option<Found> {
    for (name, script) in txn_scripts() {
        let state = ShardedActorState::with_shards(cfg.shards);
        let mut conns = vec![start_on(cfg, state.clone()), start_on(cfg, state.clone())];
        let mut hist: Vec<String> = Vec::new();
        for (ci, bytes, want) in &script {
            if conns[*ci].client.write_all(bytes).await.is_err() { break; }
            let got = conns[*ci].read_replies(1).await;
            let ctx = format!("{}; two connections on one store; scenario '{}': {} ; then connection {} sends {}", cfg_text(cfg), name, hist.join(" ; "), ci, show(bytes));
            match got {
                Err(e) => return Some(Found { input: ctx, observed: e, required: format!("exactly one reply: {}", exp_text(want)) }),
                Ok(r) => {
                    let free = matches!(want, Exp::Bytes(b) if b.is_empty());
                    if !free && !exp_ok(want, &r[0]) { return Some(Found { input: ctx, observed: format!("reply {}", show(&r[0])), required: format!("reply {}", exp_text(want)) }); }
                    hist.push(format!("c{}: {} -> {}", ci, show(bytes), show(&r[0])));
                }
            }
        }
        // exactly one reply per command: nothing but the PONG of a sentinel is left on either connection
        for (ci, mut s) in conns.into_iter().enumerate() {
            let _ = s.client.write_all(b"*1\r\n$4\r\nPING\r\n").await;
            match s.read_replies(1).await { Ok(r) if r[0] == b"+PONG\r\n" => {} other => return Some(Found { input: format!("{}; scenario '{}': {}; sentinel PING on connection {}", cfg_text(cfg), name, hist.join(" ; "), ci), observed: format!("{:?}", other.map(|r| show(&r[0]))), required: "+PONG (exactly one reply per command, nothing left over)".into() }) }
            match s.finish().await { Ok(rest) if rest.is_empty() => {} Ok(rest) => return Some(Found { input: format!("{}; scenario '{}': {}", cfg_text(cfg), name, hist.join(" ; ")), observed: format!("surplus output on connection {}: {}", ci, show(&rest)), required: "exactly one reply per command".into() }), Err(e) => return Some(Found { input: format!("{}; scenario '{}'", cfg_text(cfg), name), observed: e, required: "a clean end of the connection".into() }) }
        }
    }
    None
}

pub fn search_txn(_pid: &str, oid: &str, seed: u64) -> Option<Found> {
    let rt = tokio::runtime::Builder::new_current_thread().enable_all().build().ok()?;
    let local = tokio::task::LocalSet::new();
    let order_only = oid.contains("watch_order_only");
    local.block_on(&rt, async move {
        if order_only { return check_watch_order_only(&configs()[0]).await; }
        for cfg in configs().iter().take(2) { if let Some(f) = check_conn_txn(cfg).await { return Some(f); } }
        let mut rng = Rng::new(seed + 45);
        for cfg in configs().iter().take(2) { if let Some(f) = check_watch_two_conns(cfg, &mut rng).await { return Some(f); } }
        // pipelining / fragmentation of whole transactions on one connection: one reply per command inside and outside MULTI
        let sess: Vec<(String, Vec<Vec<u8>>)> = vec![
            ("transaction with errors, pipelined".into(), vec![c(&["SET", "a", "abc"]), c(&["MULTI"]), c(&["INCR", "a"]), c(&["GET", "a"]), c(&["RPUSH", "l", "1"]), c(&["EXEC"]), c(&["GET", "a"]), c(&["MULTI"]), c(&["SET", "a", "2"]), c(&["DISCARD"]), c(&["GET", "a"]), c(&["EXEC"]), c(&["MULTI"]), c(&["MULTI"]), c(&["WATCH", "a"]), c(&["EXEC"])]),
            ("WATCH then own write then transaction, pipelined".into(), vec![c(&["RPUSH", "l", "a"]), c(&["WATCH", "l", "s"]), c(&["RPUSH", "l", "b"]), c(&["MULTI"]), c(&["SET", "x", "1"]), c(&["GET", "x"]), c(&["EXEC"]), c(&["GET", "x"]), c(&["WATCH", "l"]), c(&["UNWATCH"]), c(&["MULTI"]), c(&["LLEN", "l"]), c(&["EXEC"])]),
            ("fast-path commands inside MULTI".into(), vec![c(&["MULTI"]), c(&["SET", "k", "v"]), c(&["GET", "k"]), c(&["SET", "k", "w"]), c(&["GET", "k"]), c(&["EXEC"]), c(&["GET", "k"]), c(&["GET", "k"]), c(&["GET", "k"])]),
        ];
        for (ci, cfg) in configs().iter().enumerate() {
            for (name, cmds) in &sess {
                let total: usize = cmds.iter().map(|c| c.len()).sum();
                let mut cutsets: Vec<Vec<usize>> = vec![vec![]];
                let stride = if ci == 0 { 1 } else { 7 };
                let mut p = 1; while p < total { cutsets.push(vec![p]); p += stride; }
                cutsets.push((1..total).collect());
                for _ in 0..6 { let k = 2 + rng.below(5); let mut cs: Vec<usize> = (0..k).map(|_| 1 + rng.below(total as u64 - 1) as usize).collect(); cs.sort(); cs.dedup(); cutsets.push(cs); }
                if let Some(f) = check_session(cfg, name, cmds, &cutsets).await { return Some(f); }
            }
        }
        None
    })
}

pub fn search(_pid: &str, oid: &str, seed: u64) -> Option<Found> {
    let rt = tokio::runtime::Builder::new_current_thread().enable_all().build().ok()?;
    let local = tokio::task::LocalSet::new();
    let oid = oid.to_string();
    local.block_on(&rt, async move {
        if oid.contains("try_fast_get") || oid.contains("try_fast_set") {
            return check_garbage_single(if oid.contains("try_fast_get") { "get" } else { "set" }).await;
        }
        if oid.contains("assert#4") {
            let which = if oid.contains("collect_get_keys") { "get" } else if oid.contains("collect_set_pairs") { "set" } else { "both" };
            return check_garbage(which).await;
        }
        let mut rng = Rng::new(seed + 4);
        let cfgs = configs();
        if oid.contains("safety") || oid.contains("parse") { for cfg in &cfgs { if let Some(f) = check_malformed(cfg).await { return Some(f); } } }
        let sess = sessions(&mut rng);
        for (ci, cfg) in cfgs.iter().enumerate() {
            for (name, cmds) in &sess {
                let total: usize = cmds.iter().map(|c| c.len()).sum();
                let mut cutsets: Vec<Vec<usize>> = vec![vec![]];
                // every single cut position (first config; sampled for the others and for big streams), byte by byte, random multi-cuts
                if total <= 1200 {
                    let stride = if ci == 0 { 1 } else { 5 + ci };
                    let mut p = 1 + (ci % stride); while p < total { cutsets.push(vec![p]); p += stride; }
                    if ci < 2 { cutsets.push((1..total).collect()); }
                } else {
                    for _ in 0..12 { cutsets.push(vec![rng.below(total as u64) as usize]); }
                    cutsets.push(vec![1, 2, 3, 8191, 8192, 8193, total - 1].into_iter().filter(|&x| x < total).collect());
                }
                for _ in 0..10 { let k = 2 + rng.below(6); let mut cs: Vec<usize> = (0..k).map(|_| 1 + rng.below(total as u64 - 1) as usize).collect(); cs.sort(); cs.dedup(); cutsets.push(cs); }
                // cuts exactly at and around command boundaries
                let mut b = 0; let mut bounds = Vec::new(); for c in cmds.iter() { b += c.len(); if b < total { bounds.push(b); } }
                cutsets.push(bounds.clone());
                cutsets.push(bounds.iter().map(|x| x + 1).filter(|&x| x < total).collect());
                cutsets.push(bounds.iter().map(|x| x - 1).collect());
                if let Some(f) = check_session(cfg, name, cmds, &cutsets).await { return Some(f); }
            }
        }
        for cfg in &cfgs { if let Some(f) = check_malformed(cfg).await { return Some(f); } }
        None
    })
}
