//! Unit `wal_modes` (C09 / C10): the real WAL actor under FsyncPolicy::EverySecond and ::No (and ::Always for truncation),
//! spawn_wal_actor over InMemoryWalStore with a tiny max_file_size (many rotations), N concurrent writers that mix
//! write_durable and write_fire_and_forget (few enough in flight that the mailbox of 256 never fills), sync_tick and
//! truncate(t) messages in between, then WalRotator::recover_all_entries on the same store:
//!   - C10: the entries recovered are exactly the entries written, once each, bit-identical (key, stamp, value), each
//!     writer's entries in the order it wrote them; nothing that nobody wrote;
//!   - truncate(t) never removes an entry with stamp > t (the largest threshold sent): all of those are still there; the older
//!     ones are there at most once; without a truncate message nothing is ever removed;
//!   - write_durable returns Ok on a healthy store, under every policy;
//!   - C09, EverySecond: once a SyncTick has been handled, every entry appended before it survives a crash
//!     (simulate_crash drops unsynced bytes); after shutdown() returned, every entry survives a crash;
//!   - the handle reports the policy of the configuration; WalConfig::always_fsync / every_second / default / test and
//!     FsyncPolicy::default select the policy their names and docs say.
use crate::deltas::{delta_id, lc};
use crate::rng::Rng;
use crate::Found;
use redis_sim::redis::SDS;
use redis_sim::replication::lattice::ReplicaId;
use redis_sim::replication::state::{ReplicatedValue, ReplicationDelta};
use redis_sim::streaming::wal_store::InMemoryWalStore;
use redis_sim::streaming::{spawn_wal_actor, FsyncPolicy, WalConfig, WalRotator};
use std::collections::BTreeMap;
use std::path::PathBuf;
use std::sync::{Arc, Mutex};
use std::time::Duration;

#[derive(Clone, Copy, Debug, PartialEq)]
enum End { ShutdownOnly, ShutdownThenCrash, TickThenCrash }

#[derive(Clone, Debug)]
struct Params {
    policy: FsyncPolicy,
    max_file_size: usize,
    /// per writer: (stamp, durable?, scheduler yields afterwards) of each of its entries, in order
    writers: Vec<Vec<(u64, bool, usize)>>,
    /// controller: after how many of its own yields it sends what
    control: Vec<(usize, Ctl)>,
    end: End,
    /// TickThenCrash: entries written (unsynced) after the tick, by one extra writer
    tail: usize,
    value_len: usize,
}
#[derive(Clone, Copy, Debug)]
enum Ctl { Tick, Truncate(u64) }

fn pol(p: FsyncPolicy) -> &'static str { match p { FsyncPolicy::Always => "Always", FsyncPolicy::EverySecond => "EverySecond", FsyncPolicy::No => "No" } }

fn show(p: &Params) -> String {
    let ws: Vec<String> = p.writers.iter().enumerate().map(|(w, es)| format!("writer {}: [{}]", w, es.iter().enumerate().map(|(j, (st, d, y))| format!("w{}e{}@{} {}{}", w, j, st, if *d { "durable" } else { "fire-and-forget" }, if *y > 0 { format!(" +{}y", y) } else { String::new() })).collect::<Vec<_>>().join(", "))).collect();
    let cs: Vec<String> = p.control.iter().map(|(y, c)| format!("after {} yields {}", y, match c { Ctl::Tick => "sync_tick()".to_string(), Ctl::Truncate(t) => format!("truncate({})", t) })).collect();
    format!("spawn_wal_actor(InMemoryWalStore, FsyncPolicy::{}, max_file_size {}), values of {} bytes; concurrent writers (entry@stamp, +Ny = N scheduler yields afterwards): {}; meanwhile [{}]; then {}",
        pol(p.policy), p.max_file_size, p.value_len, ws.join(" | "), cs.join(", "),
        match p.end { End::ShutdownOnly => "shutdown(), then recover_all_entries".to_string(), End::ShutdownThenCrash => "shutdown(), simulate_crash(), then recover_all_entries".to_string(), End::TickThenCrash => format!("all writers return; sync_tick(); one write_durable (so the tick has been handled); {} more fire-and-forget writes; simulate_crash() without shutdown; recover_all_entries", p.tail) })
}

fn delta(key: &str, stamp: u64, len: usize) -> Arc<ReplicationDelta> {
    let v: String = format!("{}-", key).chars().cycle().take(len.max(1)).collect();
    Arc::new(ReplicationDelta::new(key.to_string(), ReplicatedValue::with_value(SDS::from_str(&v), lc(stamp, 1)), ReplicaId(1)))
}

#[derive(Clone)]
struct Written { key: String, stamp: u64, id: String, writer: usize, index: usize, must_survive_crash: bool }

async fn run(p: &Params) -> Option<Found> {
    let store = InMemoryWalStore::new();
    let cfg = WalConfig { enabled: true, wal_dir: PathBuf::from("/nonexistent/verif-replay"), fsync_policy: p.policy, max_file_size: p.max_file_size, group_commit_max_entries: 8, group_commit_max_wait: Duration::from_micros(0), truncation_check_interval: Duration::from_secs(3600) };
    let (handle, actor) = match spawn_wal_actor(store.clone(), cfg) { Ok(x) => x, Err(e) => return Some(Found { input: show(p), observed: format!("spawn_wal_actor failed: {}", e), required: "the actor starts on an empty healthy store".into() }) };
    if handle.fsync_policy() != p.policy {
        return Some(Found { input: show(p), observed: format!("handle.fsync_policy() = {}", pol(handle.fsync_policy())), required: format!("{}: callers branch on it (write_durable vs write_fire_and_forget)", pol(p.policy)) });
    }
    let written: Arc<Mutex<Vec<Written>>> = Arc::new(Mutex::new(Vec::new()));
    let failed: Arc<Mutex<Vec<String>>> = Arc::new(Mutex::new(Vec::new()));
    let mut tasks = Vec::new();
    for (w, es) in p.writers.iter().enumerate() {
        let (h, es, wr, fl, vl) = (handle.clone(), es.clone(), written.clone(), failed.clone(), p.value_len);
        tasks.push(tokio::spawn(async move {
            for (j, (stamp, durable, yields)) in es.into_iter().enumerate() {
                let key = format!("w{}e{}", w, j);
                let d = delta(&key, stamp, vl);
                wr.lock().unwrap().push(Written { key: key.clone(), stamp, id: delta_id(&d), writer: w, index: j, must_survive_crash: true });
                if durable { if let Err(e) = h.write_durable(d, stamp).await { fl.lock().unwrap().push(format!("{}: {}", key, e)); } } else { h.write_fire_and_forget(d, stamp); }
                for _ in 0..yields { tokio::task::yield_now().await; }
            }
            // a durable write at the end: when it returns, everything this writer sent before has been handled (the mailbox is a queue)
            let key = format!("w{}end", w);
            let d = delta(&key, u64::MAX - w as u64, vl);
            wr.lock().unwrap().push(Written { key: key.clone(), stamp: u64::MAX - w as u64, id: delta_id(&d), writer: w, index: usize::MAX, must_survive_crash: true });
            if let Err(e) = h.write_durable(d, u64::MAX - w as u64).await { fl.lock().unwrap().push(format!("{}: {}", key, e)); }
        }));
    }
    let mut t_max: Option<u64> = None;
    for (y, c) in &p.control {
        for _ in 0..*y { tokio::task::yield_now().await; }
        match c { Ctl::Tick => handle.sync_tick(), Ctl::Truncate(t) => { handle.truncate(*t); t_max = Some(t_max.map_or(*t, |m| m.max(*t))); } }
    }
    for t in tasks { if let Err(e) = t.await { return Some(Found { input: show(p), observed: format!("a writer task panicked: {}", e), required: "every write returns".into() }); } }
    match p.end {
        End::ShutdownOnly => { handle.shutdown().await; let _ = actor.await; }
        End::ShutdownThenCrash => { handle.shutdown().await; let _ = actor.await; store.simulate_crash(); }
        End::TickThenCrash => {
            handle.sync_tick();
            let d = delta("barrier", u64::MAX - 1000, p.value_len);
            written.lock().unwrap().push(Written { key: "barrier".into(), stamp: u64::MAX - 1000, id: delta_id(&d), writer: usize::MAX, index: 0, must_survive_crash: false });
            if let Err(e) = handle.write_durable(d, u64::MAX - 1000).await { failed.lock().unwrap().push(format!("barrier: {}", e)); }
            for j in 0..p.tail {
                let key = format!("tail{}", j);
                let d = delta(&key, u64::MAX - 2000 + j as u64, p.value_len);
                written.lock().unwrap().push(Written { key, stamp: u64::MAX - 2000 + j as u64, id: delta_id(&d), writer: usize::MAX, index: 1 + j, must_survive_crash: false });
                handle.write_fire_and_forget(d, u64::MAX - 2000 + j as u64);
            }
            for _ in 0..(p.tail % 4) { tokio::task::yield_now().await; }
            store.simulate_crash();
            actor.abort();
        }
    }
    let failed = failed.lock().unwrap().clone();
    if !failed.is_empty() {
        return Some(Found { input: show(p), observed: format!("write_durable returned Err: {}", failed.join("; ")), required: "Ok: the store is healthy, the append succeeded".into() });
    }
    let recovered = match WalRotator::new(store.clone(), p.max_file_size).and_then(|r| r.recover_all_entries()) { Ok(r) => r, Err(e) => return Some(Found { input: show(p), observed: format!("recover_all_entries failed: {}", e), required: "recovery succeeds".into() }) };
    let written = written.lock().unwrap().clone();
    let by_key: BTreeMap<&str, &Written> = written.iter().map(|w| (w.key.as_str(), w)).collect();
    let mut seen: BTreeMap<String, usize> = BTreeMap::new();
    let mut last_index: BTreeMap<usize, (usize, String)> = BTreeMap::new();
    for e in &recovered {
        let d = match e.to_delta() { Ok(d) => d, Err(x) => return Some(Found { input: show(p), observed: format!("a recovered entry (stamp {}) does not decode: {}", e.timestamp, x), required: "only entries that were written, bit-identical".into() }) };
        let w = match by_key.get(d.key.as_str()) { Some(w) => *w, None => return Some(Found { input: show(p), observed: format!("recovered an entry for key {:?} (stamp {})", d.key, e.timestamp), required: "only entries that some writer wrote".into() }) };
        if !e.validate() || e.timestamp != w.stamp || delta_id(&d) != w.id {
            return Some(Found { input: show(p), observed: format!("the recovered entry {} has stamp {}, checksum valid: {}, content {}", w.key, e.timestamp, e.validate(), delta_id(&d)), required: format!("stamp {} and content {} as written", w.stamp, w.id) });
        }
        *seen.entry(w.key.clone()).or_insert(0) += 1;
        if w.writer != usize::MAX || p.end == End::TickThenCrash {
            if let Some((prev, pk)) = last_index.get(&w.writer) { if *prev > w.index {
                return Some(Found { input: show(p), observed: format!("recovery returns {} before {}", pk, w.key), required: "each writer's entries in the order it wrote them (the mailbox is a queue, files are read in sequence order)".into() });
            } }
            last_index.insert(w.writer, (w.index, w.key.clone()));
        }
    }
    if let Some((k, n)) = seen.iter().find(|(_, n)| **n > 1) {
        return Some(Found { input: show(p), observed: format!("the entry {} is recovered {} times (of {} entries recovered)", k, n, recovered.len()), required: "every written entry exactly once".into() });
    }
    let crash = p.end != End::ShutdownOnly;
    let must: Vec<&Written> = written.iter().filter(|w| t_max.map_or(true, |t| w.stamp > t) && (!crash || (w.must_survive_crash && p.policy != FsyncPolicy::No))).collect();
    let missing: Vec<String> = must.iter().filter(|w| !seen.contains_key(&w.key)).map(|w| format!("{}@{}", w.key, w.stamp)).collect();
    if !missing.is_empty() {
        let why = match (t_max, crash) {
            (Some(t), false) => format!("every entry with a stamp above {} (the largest truncate threshold) is still in the WAL, once: truncation removes only files whose entries are ALL at or below the streamed stamp", t),
            (None, false) => "every entry written is recovered exactly once (no truncate message was sent: nothing may be removed)".to_string(),
            (_, true) => match p.end { End::TickThenCrash => "every entry appended before a SyncTick that was handled is covered by that tick's fsync and survives the crash".to_string(), _ => "shutdown() is answered only after the final fsync: every entry survives a crash after it".to_string() },
        };
        return Some(Found { input: show(p), observed: format!("{} entries recovered; missing: [{}]", recovered.len(), missing.join(", ")), required: why });
    }
    None
}

fn check_configs() -> Option<Found> {
    let dir = PathBuf::from("/var/lib/x/wal");
    let a = WalConfig::always_fsync(dir.clone());
    if a.fsync_policy != FsyncPolicy::Always || !a.enabled || a.wal_dir != dir { return Some(Found { input: "WalConfig::always_fsync(\"/var/lib/x/wal\")".into(), observed: format!("fsync_policy {}, enabled {}, wal_dir {:?}", pol(a.fsync_policy), a.enabled, a.wal_dir), required: "the always-fsync policy (zero RPO), enabled, in the given directory".into() }); }
    let e = WalConfig::every_second(dir.clone());
    if e.fsync_policy != FsyncPolicy::EverySecond || !e.enabled || e.wal_dir != dir { return Some(Found { input: "WalConfig::every_second(\"/var/lib/x/wal\")".into(), observed: format!("fsync_policy {}, enabled {}, wal_dir {:?}", pol(e.fsync_policy), e.enabled, e.wal_dir), required: "the every-second policy, enabled, in the given directory".into() }); }
    if FsyncPolicy::default() != FsyncPolicy::EverySecond || WalConfig::default().fsync_policy != FsyncPolicy::EverySecond || WalConfig::default().enabled {
        return Some(Found { input: "FsyncPolicy::default(), WalConfig::default()".into(), observed: format!("{} / {} (enabled {})", pol(FsyncPolicy::default()), pol(WalConfig::default().fsync_policy), WalConfig::default().enabled), required: "EverySecond (as documented: mirrors Redis appendfsync everysec), WAL disabled by default".into() });
    }
    let t = WalConfig::test();
    if t.fsync_policy != FsyncPolicy::Always || !t.enabled { return Some(Found { input: "WalConfig::test()".into(), observed: format!("fsync_policy {}, enabled {}", pol(t.fsync_policy), t.enabled), required: "Always, enabled".into() }); }
    for c in [&a, &e, &t, &WalConfig::default()] {
        if c.max_file_size <= 64 || c.group_commit_max_entries == 0 { return Some(Found { input: "preset WalConfig".into(), observed: format!("max_file_size {}, group_commit_max_entries {}", c.max_file_size, c.group_commit_max_entries), required: "a file holds more than its header; a batch holds at least one entry (spawn_wal_actor's preconditions)".into() }); }
    }
    None
}

fn gen_writers(rng: &mut Rng, n: usize, m: usize, stamp_span: u64, mixed: bool) -> Vec<Vec<(u64, bool, usize)>> {
    (0..n).map(|_| {
        let mut burst = 0usize;
        (0..1 + rng.below(m as u64) as usize).map(|_| {
            let stamp = 1 + rng.below(stamp_span);
            // at most 4 fire-and-forget writes in a row per writer: with <= 8 writers the mailbox of 256 never fills
            let durable = if !mixed { true } else if burst >= 4 { true } else { rng.chance(1, 2) };
            burst = if durable { 0 } else { burst + 1 };
            (stamp, durable, if rng.chance(1, 3) { rng.below(4) as usize } else { 0 })
        }).collect()
    }).collect()
}

pub fn search(_pid: &str, oid: &str, seed: u64) -> Option<Found> {
    let rt = tokio::runtime::Builder::new_current_thread().enable_all().build().ok()?;
    if let Some(f) = check_configs() { return Some(f); }
    let mut rng = Rng::new(seed + 910);
    let trunc_first = oid.contains("truncat");
    let policies = [FsyncPolicy::EverySecond, FsyncPolicy::No, FsyncPolicy::Always];
    // ---- structured
    let mut cases: Vec<Params> = Vec::new();
    for &policy in &policies { for &mfs in &[64usize, 150, 200, 400, 1 << 20] { for &(n, m) in &[(1usize, 1usize), (1, 12), (3, 6), (8, 10)] { for mixed in [false, true] {
        // the always-fsync policy (unit wal_rotator's subject) only for truncation, on fewer shapes: each of its batches waits for a timer
        if policy == FsyncPolicy::Always && !((mfs == 150 || mfs == 400) && n == 3 && mixed) { continue; }
        let mut r = Rng::new((mfs + n * 31 + m) as u64);
        let writers = gen_writers(&mut r, n, m, 1000, mixed);
        cases.push(Params { policy, max_file_size: mfs, writers: writers.clone(), control: vec![], end: End::ShutdownOnly, tail: 0, value_len: 8 });
        cases.push(Params { policy, max_file_size: mfs, writers: writers.clone(), control: vec![(2, Ctl::Tick), (3, Ctl::Tick)], end: End::ShutdownOnly, tail: 0, value_len: 8 });
        // truncation at the end: every file but the current one is closed by then
        for t in [0u64, 1, 300, 500, 999, 1000, 5000] {
            cases.push(Params { policy, max_file_size: mfs, writers: writers.clone(), control: vec![(200, Ctl::Truncate(t))], end: End::ShutdownOnly, tail: 0, value_len: 8 });
            cases.push(Params { policy, max_file_size: mfs, writers: writers.clone(), control: vec![(4, Ctl::Truncate(t / 2)), (6, Ctl::Truncate(t))], end: End::ShutdownOnly, tail: 0, value_len: 8 });
        }
        if policy == FsyncPolicy::EverySecond {
            cases.push(Params { policy, max_file_size: mfs, writers: writers.clone(), control: vec![], end: End::ShutdownThenCrash, tail: 0, value_len: 8 });
            for tail in [0usize, 1, 5] { cases.push(Params { policy, max_file_size: mfs, writers: writers.clone(), control: vec![], end: End::TickThenCrash, tail, value_len: 8 }); }
        }
    } } } }
    if trunc_first { cases.sort_by_key(|c| if c.control.iter().any(|(_, x)| matches!(x, Ctl::Truncate(_))) { 0 } else { 1 }); }
    for p in &cases { if let Some(f) = rt.block_on(run(p)) { return Some(f); } }
    // ---- seeded random
    for _ in 0..900u64 {
        let policy = *rng.pick(&[FsyncPolicy::EverySecond, FsyncPolicy::EverySecond, FsyncPolicy::EverySecond, FsyncPolicy::No, FsyncPolicy::No, FsyncPolicy::Always]);
        let n = 1 + rng.below(8) as usize;
        let m = 1 + rng.below(14) as usize;
        let span = *rng.pick(&[5u64, 50, 1000, 1_000_000]);
        let mixed = rng.chance(3, 4);
        let writers = gen_writers(&mut rng, n, m, span, mixed);
        let nc = rng.below(5) as usize;
        let control: Vec<(usize, Ctl)> = (0..nc).map(|_| (rng.below(12) as usize, if rng.chance(1, 3) { Ctl::Tick } else { Ctl::Truncate(rng.below(span + 2)) })).collect();
        let has_trunc = control.iter().any(|(_, c)| matches!(c, Ctl::Truncate(_)));
        let end = if policy == FsyncPolicy::EverySecond && !has_trunc { *rng.pick(&[End::ShutdownOnly, End::ShutdownThenCrash, End::TickThenCrash]) } else { End::ShutdownOnly };
        let p = Params { policy, max_file_size: *rng.pick(&[17usize, 64, 100, 150, 200, 300, 500, 1000, 4096]), writers, control, end, tail: rng.below(7) as usize, value_len: *rng.pick(&[1usize, 8, 8, 40, 150]) };
        if let Some(f) = rt.block_on(run(&p)) { return Some(f); }
    }
    None
}
