//! Unit `digest` (C18): KeyDigest / MerkleNode / StateDigest - equal states give equal digests whatever the
//! insertion order (every trial builds FRESH HashMaps: each has its own RandomState, so iteration orders differ),
//! a one-key difference shows up in exactly that key's bucket, divergent_buckets equals a brute-force comparison.
use crate::rng::Rng;
use crate::Found;
use redis_sim::redis::SDS;
use redis_sim::replication::anti_entropy::{KeyDigest, MerkleNode, StateDigest};
use redis_sim::replication::lattice::{GCounter, LamportClock, ReplicaId};
use redis_sim::replication::state::{CrdtValue, ReplicatedValue};
use std::collections::HashMap;

fn lc(t: u64, r: u64) -> LamportClock { LamportClock { time: t, replica_id: ReplicaId(r) } }

/// a value as some replica could have written it; the payload is a function of (key, stamp): a stamp identifies one write
fn gen_value(key: &str, kind: u64, t: u64, r: u64) -> ReplicatedValue {
    let payload = format!("{}@{}_{}", key, t, r);
    match kind {
        0 => ReplicatedValue::with_value(SDS::new(payload.into_bytes()), lc(t, r)),
        1 => { let mut v = ReplicatedValue::with_value(SDS::new(payload.into_bytes()), lc(t.saturating_sub(1), r)); let mut c = lc(t.saturating_sub(1), r); v.delete(&mut c); v }
        2 => {
            let mut v = ReplicatedValue::with_crdt(CrdtValue::new_hash(), ReplicaId(r));
            let mut c = lc(t.saturating_sub(1), r);
            v.hash_set(format!("f{}", t % 3), SDS::new(payload.into_bytes()), &mut c);
            v
        }
        3 => { let mut g = GCounter::new(); g.increment_by(ReplicaId(r), t); let mut v = ReplicatedValue::with_crdt(CrdtValue::GCounter(g), ReplicaId(r)); v.timestamp = lc(t, r); v }
        _ => ReplicatedValue::with_value(SDS::new(vec![0u8, 0xff, (t % 251) as u8, b'\r', b'\n']), lc(t, r)),
    }
}

fn show_val(v: &ReplicatedValue) -> String {
    format!("{{stamp=({},{}), lww={:?}}}", v.timestamp.time, v.timestamp.replica_id.0, v.get().map(|s| String::from_utf8_lossy(s.as_bytes()).to_string()))
}

type Content = Vec<(String, ReplicatedValue)>;

fn gen_content(rng: &mut Rng, n: usize) -> Content {
    let mut out: Content = Vec::new();
    let style = rng.below(3);
    for i in 0..n {
        let key = match style { 0 => format!("k{}", i), 1 => format!("user:{}:{}", i, rng.below(1000)), _ => { let l = 1 + rng.below(6) as usize; format!("{}{}", "é键x".chars().cycle().skip(i % 3).take(l).collect::<String>(), i) } };
        if out.iter().any(|(k, _)| *k == key) { continue; }
        let t = 1 + rng.below(50);
        let r = 1 + rng.below(3);
        let v = gen_value(&key, rng.below(5), t, r);
        out.push((key, v));
    }
    out
}

/// fresh map (own RandomState); `order` is a permutation of the content; optional churn changes capacity/probe history
fn build(content: &Content, order: &[usize], churn: bool, cap: usize) -> HashMap<String, ReplicatedValue> {
    let mut m: HashMap<String, ReplicatedValue> = if cap > 0 { HashMap::with_capacity(cap) } else { HashMap::new() };
    if churn { for i in 0..40 { m.insert(format!("__churn{}", i), gen_value("c", 0, 1, 1)); } }
    for &i in order { m.insert(content[i].0.clone(), content[i].1.clone()); }
    if churn { for i in 0..40 { m.remove(&format!("__churn{}", i)); } }
    m
}

fn shuffled(rng: &mut Rng, n: usize) -> Vec<usize> {
    let mut v: Vec<usize> = (0..n).collect();
    for i in (1..n).rev() { let j = rng.below(i as u64 + 1) as usize; v.swap(i, j); }
    v
}

fn kd(d: &KeyDigest) -> (u64, u64, u64) { (d.key_hash, d.value_hash, d.timestamp) }
fn node_eq(a: &MerkleNode, b: &MerkleNode) -> bool { a.hash == b.hash && a.count == b.count && a.max_timestamp == b.max_timestamp }
fn show_node(n: &MerkleNode) -> String { format!("(hash={:016x},count={},max_ts={})", n.hash, n.count, n.max_timestamp) }

/// brute force: the sorted digest list of every bucket, straight from the content
fn brute_buckets(content: &Content, depth: usize) -> Vec<Vec<KeyDigest>> {
    let mut b: Vec<Vec<KeyDigest>> = vec![Vec::new(); 1usize << depth];
    for (k, v) in content { let d = KeyDigest::new(k, v); let i = (d.key_hash as usize) % (1usize << depth); b[i].push(d); }
    for x in b.iter_mut() { x.sort_by_key(kd); }
    b
}

fn check_bucket_range(rng: &mut Rng) -> Option<Found> {
    let mut hashes: Vec<u64> = vec![0, 1, 2, 3, 255, 256, u64::MAX, u64::MAX - 1, 1 << 63, (1 << 63) - 1, 1 << 32, (1 << 32) - 1];
    for _ in 0..200 { hashes.push(rng.next()); }
    for &h in &hashes {
        for depth in (0usize..=20).chain([31, 32, 33, 47, 62, 63]) {
            let d = KeyDigest { key_hash: h, value_hash: 0, timestamp: 0 };
            let r = std::panic::catch_unwind(|| d.bucket(depth));
            match r {
                Err(_) => return Some(Found { input: format!("KeyDigest{{key_hash={}}}.bucket({})", h, depth), observed: "panic".into(), required: "an index below 2^depth".into() }),
                Ok(b) => {
                    let lim = 1u128 << depth;
                    if (b as u128) >= lim || (b as u128) != (h as u128) % lim {
                        return Some(Found { input: format!("KeyDigest{{key_hash={}}}.bucket({})", h, depth), observed: format!("{}", b), required: format!("key_hash mod 2^depth = {} (< {})", (h as u128) % lim, lim) });
                    }
                }
            }
        }
    }
    None
}

fn check_key_digest(rng: &mut Rng) -> Option<Found> {
    // a function of (key bytes, stamp, LWW payload): recomputation and clones agree; a later stamp changes it
    for _ in 0..300 {
        let key = format!("k{}", rng.below(50));
        let (t, r) = (1 + rng.below(40), 1 + rng.below(3));
        let kind = rng.below(5);
        let v1 = gen_value(&key, kind, t, r);
        let v2 = gen_value(&key, kind, t, r);
        let (d1, d2, d3) = (KeyDigest::new(&key, &v1), KeyDigest::new(&key, &v2), KeyDigest::new(&key, &v1.clone()));
        if kd(&d1) != kd(&d2) || kd(&d1) != kd(&d3) {
            return Some(Found { input: format!("KeyDigest::new({:?}, {}) computed twice", key, show_val(&v1)), observed: format!("{:?} vs {:?} vs {:?}", d1, d2, d3), required: "the same digest for the same key and value".into() });
        }
        if d1.timestamp != v1.timestamp.time { return Some(Found { input: format!("KeyDigest::new({:?}, {})", key, show_val(&v1)), observed: format!("timestamp {}", d1.timestamp), required: "the value's stamp time".into() }); }
        let later = gen_value(&key, kind, t + 1 + rng.below(5), r);
        let dl = KeyDigest::new(&key, &later);
        if dl.key_hash != d1.key_hash || dl.value_hash == d1.value_hash {
            return Some(Found { input: format!("key {:?}: {} then rewritten as {}", key, show_val(&v1), show_val(&later)), observed: format!("{:?} vs {:?}", d1, dl), required: "same key_hash, different value_hash".into() });
        }
        let other_replica = gen_value(&key, 0, t, r + 1);
        let same = gen_value(&key, 0, t, r);
        if KeyDigest::new(&key, &other_replica).value_hash == KeyDigest::new(&key, &same).value_hash {
            return Some(Found { input: format!("key {:?} stamped ({},{}) vs ({},{})", key, t, r, t, r + 1), observed: "equal value_hash".into(), required: "different writes, different value_hash".into() });
        }
    }
    None
}

fn check_node_perm(rng: &mut Rng, iters: u64) -> Option<Found> {
    let e = MerkleNode::from_digests(&[]);
    if !node_eq(&e, &MerkleNode::empty()) || e.count != 0 { return Some(Found { input: "from_digests(&[])".into(), observed: show_node(&e), required: "the empty node".into() }); }
    for it in 0..iters {
        let n = if it < 12 { it as usize + 1 } else { 1 + rng.below(24) as usize };
        let mut ds: Vec<KeyDigest> = Vec::new();
        for i in 0..n {
            let kh = if rng.chance(1, 4) && i > 0 { ds[rng.below(i as u64) as usize].key_hash } else { rng.next() };
            ds.push(KeyDigest { key_hash: kh, value_hash: if rng.chance(1, 6) { rng.below(3) } else { rng.next() }, timestamp: rng.below(100) });
        }
        if rng.chance(1, 5) { let d = ds[0]; ds.push(d); }
        let base = MerkleNode::from_digests(&ds);
        let want_max = ds.iter().map(|d| d.timestamp).max().unwrap_or(0);
        if base.count != ds.len() || base.max_timestamp != want_max {
            return Some(Found { input: format!("from_digests({:?})", ds), observed: show_node(&base), required: format!("count={} max_timestamp={}", ds.len(), want_max) });
        }
        let mut perms: Vec<Vec<KeyDigest>> = Vec::new();
        let mut rev = ds.clone(); rev.reverse(); perms.push(rev);
        let mut rot = ds.clone(); rot.rotate_left(1); perms.push(rot);
        let mut sorted = ds.clone(); sorted.sort_by_key(kd); perms.push(sorted);
        for _ in 0..4 { let o = shuffled(rng, ds.len()); perms.push(o.iter().map(|&i| ds[i]).collect()); }
        for p in perms {
            let node = MerkleNode::from_digests(&p);
            if !node_eq(&node, &base) {
                return Some(Found { input: format!("from_digests on {:?} and on its permutation {:?}", ds, p), observed: format!("{} vs {}", show_node(&base), show_node(&node)), required: "the same node for the same multiset of digests".into() });
            }
        }
        // a different multiset gives a different hash (drop one / change one)
        if ds.len() > 1 {
            let mut fewer = ds.clone(); fewer.pop();
            let mut changed = ds.clone(); changed[0].value_hash = changed[0].value_hash.wrapping_add(1);
            for (what, other) in [("one digest dropped", fewer), ("one value_hash changed", changed)] {
                let node = MerkleNode::from_digests(&other);
                if node.hash == base.hash {
                    return Some(Found { input: format!("from_digests({:?}) vs {}", ds, what), observed: "equal hashes".into(), required: "different digest multisets give different hashes".into() });
                }
            }
        }
    }
    None
}

fn describe(content: &Content) -> String {
    let shown: Vec<String> = content.iter().take(10).map(|(k, v)| format!("{:?}=>{}", k, show_val(v))).collect();
    format!("{} keys [{}{}]", content.len(), shown.join(", "), if content.len() > 10 { ", .." } else { "" })
}

fn check_equal_states(rng: &mut Rng, iters: u64) -> Option<Found> {
    for it in 0..iters {
        let n = match it { 0 => 0, 1 => 1, 2 => 2, 3 => 8, 4 => 64, _ => rng.below(70) as usize };
        let content = gen_content(rng, n);
        let n = content.len();
        let ident: Vec<usize> = (0..n).collect();
        for depth in [0usize, 1, 2, 4, 8] {
            let a = build(&content, &ident, false, 0);
            let da = StateDigest::from_state(&a, ReplicaId(1), 7, depth);
            let want_max = content.iter().map(|(_, v)| v.timestamp.time).max().unwrap_or(0);
            if da.buckets.len() != (1usize << depth) || da.key_count != n || da.max_timestamp != want_max {
                return Some(Found { input: format!("from_state(depth={}) on {}", depth, describe(&content)), observed: format!("buckets={} key_count={} max_timestamp={}", da.buckets.len(), da.key_count, da.max_timestamp), required: format!("buckets={} key_count={} max_timestamp={}", 1usize << depth, n, want_max) });
            }
            for trial in 0..6u64 {
                let order = match trial { 0 => ident.clone(), 1 => { let mut o = ident.clone(); o.reverse(); o } _ => shuffled(rng, n) };
                let b = build(&content, &order, trial % 2 == 1, if trial == 3 { 1024 } else { 0 });
                let db = StateDigest::from_state(&b, ReplicaId(2), 9, depth);
                let div = da.divergent_buckets(&db);
                let div2 = db.divergent_buckets(&da);
                let buckets_equal = da.buckets.len() == db.buckets.len() && da.buckets.iter().zip(db.buckets.iter()).all(|(x, y)| node_eq(x, y));
                if da.differs_from(&db) || db.differs_from(&da) || da.root_hash != db.root_hash || !div.is_empty() || !div2.is_empty() || !buckets_equal || da.key_count != db.key_count || da.max_timestamp != db.max_timestamp {
                    let first = (0..da.buckets.len().min(db.buckets.len())).find(|&i| !node_eq(&da.buckets[i], &db.buckets[i]));
                    return Some(Found {
                        input: format!("two fresh HashMaps with the same content ({}), second filled in order {:?}{}; from_state(depth={})", describe(&content), &order[..order.len().min(12)], if trial % 2 == 1 { " after insert/remove churn" } else { "" }, depth),
                        observed: format!("differs_from={} root {:016x} vs {:016x} divergent_buckets={:?}{}", da.differs_from(&db), da.root_hash, db.root_hash, div, first.map(|i| format!(" bucket {}: {} vs {}", i, show_node(&da.buckets[i]), show_node(&db.buckets[i]))).unwrap_or_default()),
                        required: "equal states give equal digests: differs_from == false, no divergent bucket".into(),
                    });
                }
            }
            // every bucket node equals the node of the brute-force digest list of that bucket
            let bb = brute_buckets(&content, depth);
            for (i, want) in bb.iter().enumerate() {
                let w = MerkleNode::from_digests(want);
                if !node_eq(&da.buckets[i], &w) {
                    return Some(Found { input: format!("from_state(depth={}) on {}; bucket {}", depth, describe(&content), i), observed: show_node(&da.buckets[i]), required: format!("the node of the {} digests whose key_hash mod 2^depth = {}: {}", want.len(), i, show_node(&w)) });
                }
            }
        }
    }
    None
}

fn brute_divergent(a: &[Vec<KeyDigest>], b: &[Vec<KeyDigest>]) -> Vec<usize> {
    let n = a.len().max(b.len());
    (0..n).filter(|&i| match (a.get(i), b.get(i)) { (Some(x), Some(y)) => x.iter().map(kd).collect::<Vec<_>>() != y.iter().map(kd).collect::<Vec<_>>(), (Some(x), None) => !x.is_empty(), (None, Some(y)) => !y.is_empty(), _ => false }).collect()
}

fn check_unequal_states(rng: &mut Rng, iters: u64) -> Option<Found> {
    for it in 0..iters {
        let n = if it < 4 { [1usize, 2, 8, 40][it as usize] } else { 1 + rng.below(60) as usize };
        let content = gen_content(rng, n);
        if content.is_empty() { continue; }
        let n = content.len();
        // one-key difference
        let mut other = content.clone();
        let j = rng.below(n as u64) as usize;
        let key = content[j].0.clone();
        let what;
        match rng.below(4) {
            0 => { other.remove(j); what = format!("key {:?} missing on the second replica", key); }
            1 => { let t = content[j].1.timestamp.time + 1 + rng.below(4); other[j].1 = gen_value(&key, rng.below(5), t, 1 + rng.below(3)); what = format!("key {:?} rewritten at a later stamp on the second replica: {}", key, show_val(&other[j].1)); }
            2 => { let mut v = other[j].1.clone(); let mut c = lc(v.timestamp.time + rng.below(3), 2); v.delete(&mut c); other[j].1 = v; what = format!("key {:?} deleted (tombstone {}) on the second replica", key, show_val(&other[j].1)); }
            _ => { let r = content[j].1.timestamp.replica_id.0 + 1; other[j].1 = gen_value(&key, 0, content[j].1.timestamp.time, r); what = format!("key {:?} holds a concurrent write of another replica with the same time: {}", key, show_val(&other[j].1)); }
        }
        for depth in [0usize, 1, 3, 6, 8] {
            let a = build(&content, &shuffled(rng, n), false, 0);
            let b = build(&other, &shuffled(rng, other.len()), true, 0);
            let da = StateDigest::from_state(&a, ReplicaId(1), 1, depth);
            let db = StateDigest::from_state(&b, ReplicaId(2), 1, depth);
            let kb = KeyDigest::new(&key, &content[j].1).bucket(depth);
            let div = da.divergent_buckets(&db);
            let div_rev = db.divergent_buckets(&da);
            if !da.differs_from(&db) || !db.differs_from(&da) || div != vec![kb] || div_rev != vec![kb] {
                return Some(Found {
                    input: format!("{}; {}; from_state(depth={})", describe(&content), what, depth),
                    observed: format!("differs_from={} divergent_buckets={:?} (reverse {:?})", da.differs_from(&db), div, div_rev),
                    required: format!("differs_from == true and divergent_buckets == [{}] (the bucket of the key that differs)", kb),
                });
            }
        }
        // arbitrary pair of states, also with different depths (bucket-vector size mismatch): brute-force comparison
        let c2 = { let m = 1 + rng.below(40) as usize; let mut c = gen_content(rng, m); for (k, v) in content.iter() { if rng.chance(1, 2) && !c.iter().any(|(k2, _)| k2 == k) { c.push((k.clone(), v.clone())); } } c };
        for (d1, d2) in [(3usize, 3usize), (2, 4), (5, 1), (0, 2)] {
            let a = build(&content, &shuffled(rng, n), false, 0);
            let b = build(&c2, &shuffled(rng, c2.len()), false, 0);
            let da = StateDigest::from_state(&a, ReplicaId(1), 1, d1);
            let db = StateDigest::from_state(&b, ReplicaId(2), 1, d2);
            let want = if d1 == d2 { brute_divergent(&brute_buckets(&content, d1), &brute_buckets(&c2, d2)) } else {
                // different depths: per definition on the public bucket vectors (same index compared, surplus non-empty ones listed)
                let n = da.buckets.len().max(db.buckets.len());
                (0..n).filter(|&i| match (da.buckets.get(i), db.buckets.get(i)) { (Some(x), Some(y)) => !node_eq(x, y), (Some(x), None) => x.count > 0, (None, Some(y)) => y.count > 0, _ => false }).collect()
            };
            let got = da.divergent_buckets(&db);
            if got != want {
                return Some(Found { input: format!("state A: {}; state B: {}; depths {} and {}", describe(&content), describe(&c2), d1, d2), observed: format!("divergent_buckets={:?}", got), required: format!("exactly the buckets that differ, in increasing order: {:?}", want) });
            }
            if d1 == d2 && da.differs_from(&db) != !want.is_empty() {
                return Some(Found { input: format!("state A: {}; state B: {}; depth {}", describe(&content), describe(&c2), d1), observed: format!("differs_from={}", da.differs_from(&db)), required: format!("{} (buckets that differ: {:?})", !want.is_empty(), want) });
            }
        }
    }
    None
}

pub fn search(_pid: &str, oid: &str, seed: u64) -> Option<Found> {
    let mut rng = Rng::new(seed + 18);
    let f = oid.split('/').nth(1).unwrap_or("");
    // the sub-battery closest to the refuted obligation first, then everything
    if f.starts_with("MerkleNode") || f.contains("bucket_order") || f.contains("canonical") { if let Some(x) = check_node_perm(&mut rng, 300) { return Some(x); } }
    if f.starts_with("StateDigest") { if let Some(x) = check_equal_states(&mut rng, 30) { return Some(x); } if let Some(x) = check_unequal_states(&mut rng, 100) { return Some(x); } }
    if f.starts_with("KeyDigest::bucket") { if let Some(x) = check_bucket_range(&mut rng) { return Some(x); } }
    if let Some(x) = check_bucket_range(&mut rng) { return Some(x); }
    if let Some(x) = check_key_digest(&mut rng) { return Some(x); }
    if let Some(x) = check_node_perm(&mut rng, 600) { return Some(x); }
    if let Some(x) = check_equal_states(&mut rng, 60) { return Some(x); }
    if let Some(x) = check_unequal_states(&mut rng, 200) { return Some(x); }
    None
}
