//! Unit `digest` (C18): KeyDigest / MerkleNode / StateDigest - equal states give equal digests whatever the
//! insertion order (every trial builds FRESH HashMaps: each has its own RandomState, so iteration orders differ),
//! a one-key difference shows up in exactly that key's bucket, divergent_buckets equals a brute-force comparison.
use crate::rng::Rng;
use crate::Found;
use redis_sim::redis::SDS;
use redis_sim::replication::anti_entropy::{KeyDigest, MerkleNode, StateDigest};
use redis_sim::replication::lattice::{GCounter, GSet, LamportClock, LwwRegister, ORSet, PNCounter, ReplicaId, VectorClock};
use redis_sim::replication::state::{CrdtValue, ReplicatedValue, ShardReplicaState};
use redis_sim::replication::ConsistencyLevel;
use std::collections::HashMap;

fn lc(t: u64, r: u64) -> LamportClock { LamportClock { time: t, replica_id: ReplicaId(r) } }

/// a value as some replica could have written it; the payload is a function of (key, stamp): a stamp identifies one write
fn gen_value(key: &str, kind: u64, t: u64, r: u64) -> ReplicatedValue {
    let payload = format!("{}@{}_{}", key, t, r);
    match kind {
        0 => ReplicatedValue::with_value(SDS::new(payload.into_bytes()), lc(t, r)),
        1 => { let mut v = ReplicatedValue::with_value(SDS::new(payload.into_bytes()), lc(t.saturating_sub(1), r)); let mut c = lc(t.saturating_sub(1), r); v.delete(&mut c); v }
        2 => {
            let mut v = ReplicatedValue::with_crdt(CrdtValue::new_hash(), ReplicaId(r));
            let mut c = lc(t.saturating_sub(1), r);
            v.hash_set(format!("f{}", t % 3), SDS::new(payload.into_bytes()), &mut c);
            v
        }
        3 => { let mut g = GCounter::new(); g.increment_by(ReplicaId(r), t); let mut v = ReplicatedValue::with_crdt(CrdtValue::GCounter(g), ReplicaId(r)); v.timestamp = lc(t, r); v }
        _ => ReplicatedValue::with_value(SDS::new(vec![0u8, 0xff, (t % 251) as u8, b'\r', b'\n']), lc(t, r)),
    }
}

fn show_val(v: &ReplicatedValue) -> String {
    format!("{{stamp=({},{}), lww={:?}}}", v.timestamp.time, v.timestamp.replica_id.0, v.get().map(|s| String::from_utf8_lossy(s.as_bytes()).to_string()))
}

type Content = Vec<(String, ReplicatedValue)>;

fn gen_content(rng: &mut Rng, n: usize) -> Content {
    let mut out: Content = Vec::new();
    let style = rng.below(3);
    for i in 0..n {
        let key = match style { 0 => format!("k{}", i), 1 => format!("user:{}:{}", i, rng.below(1000)), _ => { let l = 1 + rng.below(6) as usize; format!("{}{}", "é键x".chars().cycle().skip(i % 3).take(l).collect::<String>(), i) } };
        if out.iter().any(|(k, _)| *k == key) { continue; }
        let t = 1 + rng.below(50);
        let r = 1 + rng.below(3);
        let v = gen_value(&key, rng.below(5), t, r);
        out.push((key, v));
    }
    out
}

/// fresh map (own RandomState); `order` is a permutation of the content; optional churn changes capacity/probe history
fn build(content: &Content, order: &[usize], churn: bool, cap: usize) -> HashMap<String, ReplicatedValue> {
    let mut m: HashMap<String, ReplicatedValue> = if cap > 0 { HashMap::with_capacity(cap) } else { HashMap::new() };
    if churn { for i in 0..40 { m.insert(format!("__churn{}", i), gen_value("c", 0, 1, 1)); } }
    for &i in order { m.insert(content[i].0.clone(), content[i].1.clone()); }
    if churn { for i in 0..40 { m.remove(&format!("__churn{}", i)); } }
    m
}

fn shuffled(rng: &mut Rng, n: usize) -> Vec<usize> {
    let mut v: Vec<usize> = (0..n).collect();
    for i in (1..n).rev() { let j = rng.below(i as u64 + 1) as usize; v.swap(i, j); }
    v
}

fn kd(d: &KeyDigest) -> (u64, u64, u64) { (d.key_hash, d.value_hash, d.timestamp) }
fn node_eq(a: &MerkleNode, b: &MerkleNode) -> bool { a.hash == b.hash && a.count == b.count && a.max_timestamp == b.max_timestamp }
fn show_node(n: &MerkleNode) -> String { format!("(hash={:016x},count={},max_ts={})", n.hash, n.count, n.max_timestamp) }

/// brute force: the sorted digest list of every bucket, straight from the content
fn brute_buckets(content: &Content, depth: usize) -> Vec<Vec<KeyDigest>> {
    let mut b: Vec<Vec<KeyDigest>> = vec![Vec::new(); 1usize << depth];
    for (k, v) in content { let d = KeyDigest::new(k, v); let i = (d.key_hash as usize) % (1usize << depth); b[i].push(d); }
    for x in b.iter_mut() { x.sort_by_key(kd); }
    b
}

fn check_bucket_range(rng: &mut Rng) -> Option<Found> {
    let mut hashes: Vec<u64> = vec![0, 1, 2, 3, 255, 256, u64::MAX, u64::MAX - 1, 1 << 63, (1 << 63) - 1, 1 << 32, (1 << 32) - 1];
    for _ in 0..200 { hashes.push(rng.next()); }
    for &h in &hashes {
        for depth in (0usize..=20).chain([31, 32, 33, 47, 62, 63]) {
            let d = KeyDigest { key_hash: h, value_hash: 0, timestamp: 0 };
            let r = std::panic::catch_unwind(|| d.bucket(depth));
            match r {
                Err(_) => return Some(Found { input: format!("KeyDigest{{key_hash={}}}.bucket({})", h, depth), observed: "panic".into(), required: "an index below 2^depth".into() }),
                Ok(b) => {
                    let lim = 1u128 << depth;
                    if (b as u128) >= lim || (b as u128) != (h as u128) % lim {
                        return Some(Found { input: format!("KeyDigest{{key_hash={}}}.bucket({})", h, depth), observed: format!("{}", b), required: format!("key_hash mod 2^depth = {} (< {})", (h as u128) % lim, lim) });
                    }
                }
            }
        }
    }
    None
}

fn check_key_digest(rng: &mut Rng) -> Option<Found> {
    // a function of (key bytes, stamp, LWW payload): recomputation and clones agree; a later stamp changes it
    for _ in 0..300 {
        let key = format!("k{}", rng.below(50));
        let (t, r) = (1 + rng.below(40), 1 + rng.below(3));
        let kind = rng.below(5);
        let v1 = gen_value(&key, kind, t, r);
        let v2 = gen_value(&key, kind, t, r);
        let (d1, d2, d3) = (KeyDigest::new(&key, &v1), KeyDigest::new(&key, &v2), KeyDigest::new(&key, &v1.clone()));
        if kd(&d1) != kd(&d2) || kd(&d1) != kd(&d3) {
            return Some(Found { input: format!("KeyDigest::new({:?}, {}) computed twice", key, show_val(&v1)), observed: format!("{:?} vs {:?} vs {:?}", d1, d2, d3), required: "the same digest for the same key and value".into() });
        }
        if d1.timestamp != v1.timestamp.time { return Some(Found { input: format!("KeyDigest::new({:?}, {})", key, show_val(&v1)), observed: format!("timestamp {}", d1.timestamp), required: "the value's stamp time".into() }); }
        let later = gen_value(&key, kind, t + 1 + rng.below(5), r);
        let dl = KeyDigest::new(&key, &later);
        if dl.key_hash != d1.key_hash || dl.value_hash == d1.value_hash {
            return Some(Found { input: format!("key {:?}: {} then rewritten as {}", key, show_val(&v1), show_val(&later)), observed: format!("{:?} vs {:?}", d1, dl), required: "same key_hash, different value_hash".into() });
        }
        let other_replica = gen_value(&key, 0, t, r + 1);
        let same = gen_value(&key, 0, t, r);
        if KeyDigest::new(&key, &other_replica).value_hash == KeyDigest::new(&key, &same).value_hash {
            return Some(Found { input: format!("key {:?} stamped ({},{}) vs ({},{})", key, t, r, t, r + 1), observed: "equal value_hash".into(), required: "different writes, different value_hash".into() });
        }
    }
    None
}

fn check_node_perm(rng: &mut Rng, iters: u64) -> Option<Found> {
    let e = MerkleNode::from_digests(&[]);
    if !node_eq(&e, &MerkleNode::empty()) || e.count != 0 { return Some(Found { input: "from_digests(&[])".into(), observed: show_node(&e), required: "the empty node".into() }); }
    for it in 0..iters {
        let n = if it < 12 { it as usize + 1 } else { 1 + rng.below(24) as usize };
        let mut ds: Vec<KeyDigest> = Vec::new();
        for i in 0..n {
            let kh = if rng.chance(1, 4) && i > 0 { ds[rng.below(i as u64) as usize].key_hash } else { rng.next() };
            ds.push(KeyDigest { key_hash: kh, value_hash: if rng.chance(1, 6) { rng.below(3) } else { rng.next() }, timestamp: rng.below(100) });
        }
        if rng.chance(1, 5) { let d = ds[0]; ds.push(d); }
        let base = MerkleNode::from_digests(&ds);
        let want_max = ds.iter().map(|d| d.timestamp).max().unwrap_or(0);
        if base.count != ds.len() || base.max_timestamp != want_max {
            return Some(Found { input: format!("from_digests({:?})", ds), observed: show_node(&base), required: format!("count={} max_timestamp={}", ds.len(), want_max) });
        }
        let mut perms: Vec<Vec<KeyDigest>> = Vec::new();
        let mut rev = ds.clone(); rev.reverse(); perms.push(rev);
        let mut rot = ds.clone(); rot.rotate_left(1); perms.push(rot);
        let mut sorted = ds.clone(); sorted.sort_by_key(kd); perms.push(sorted);
        for _ in 0..4 { let o = shuffled(rng, ds.len()); perms.push(o.iter().map(|&i| ds[i]).collect()); }
        for p in perms {
            let node = MerkleNode::from_digests(&p);
            if !node_eq(&node, &base) {
                return Some(Found { input: format!("from_digests on {:?} and on its permutation {:?}", ds, p), observed: format!("{} vs {}", show_node(&base), show_node(&node)), required: "the same node for the same multiset of digests".into() });
            }
        }
        // a different multiset gives a different hash (drop one / change one)
        if ds.len() > 1 {
            let mut fewer = ds.clone(); fewer.pop();
            let mut changed = ds.clone(); changed[0].value_hash = changed[0].value_hash.wrapping_add(1);
            for (what, other) in [("one digest dropped", fewer), ("one value_hash changed", changed)] {
                let node = MerkleNode::from_digests(&other);
                if node.hash == base.hash {
                    return Some(Found { input: format!("from_digests({:?}) vs {}", ds, what), observed: "equal hashes".into(), required: "different digest multisets give different hashes".into() });
                }
            }
        }
    }
    None
}

fn describe(content: &Content) -> String {
    let shown: Vec<String> = content.iter().take(10).map(|(k, v)| format!("{:?}=>{}", k, show_val(v))).collect();
    format!("{} keys [{}{}]", content.len(), shown.join(", "), if content.len() > 10 { ", .." } else { "" })
}

fn check_equal_states(rng: &mut Rng, iters: u64) -> Option<Found> {
    for it in 0..iters {
        let n = match it { 0 => 0, 1 => 1, 2 => 2, 3 => 8, 4 => 64, _ => rng.below(70) as usize };
        let content = gen_content(rng, n);
        let n = content.len();
        let ident: Vec<usize> = (0..n).collect();
        for depth in [0usize, 1, 2, 4, 8] {
            let a = build(&content, &ident, false, 0);
            let da = StateDigest::from_state(&a, ReplicaId(1), 7, depth);
            let want_max = content.iter().map(|(_, v)| v.timestamp.time).max().unwrap_or(0);
            if da.buckets.len() != (1usize << depth) || da.key_count != n || da.max_timestamp != want_max {
                return Some(Found { input: format!("from_state(depth={}) on {}", depth, describe(&content)), observed: format!("buckets={} key_count={} max_timestamp={}", da.buckets.len(), da.key_count, da.max_timestamp), required: format!("buckets={} key_count={} max_timestamp={}", 1usize << depth, n, want_max) });
            }
            for trial in 0..6u64 {
                let order = match trial { 0 => ident.clone(), 1 => { let mut o = ident.clone(); o.reverse(); o } _ => shuffled(rng, n) };
                let b = build(&content, &order, trial % 2 == 1, if trial == 3 { 1024 } else { 0 });
                let db = StateDigest::from_state(&b, ReplicaId(2), 9, depth);
                let div = da.divergent_buckets(&db);
                let div2 = db.divergent_buckets(&da);
                let buckets_equal = da.buckets.len() == db.buckets.len() && da.buckets.iter().zip(db.buckets.iter()).all(|(x, y)| node_eq(x, y));
                if da.differs_from(&db) || db.differs_from(&da) || da.root_hash != db.root_hash || !div.is_empty() || !div2.is_empty() || !buckets_equal || da.key_count != db.key_count || da.max_timestamp != db.max_timestamp {
                    let first = (0..da.buckets.len().min(db.buckets.len())).find(|&i| !node_eq(&da.buckets[i], &db.buckets[i]));
                    return Some(Found {
                        input: format!("two fresh HashMaps with the same content ({}), second filled in order {:?}{}; from_state(depth={})", describe(&content), &order[..order.len().min(12)], if trial % 2 == 1 { " after insert/remove churn" } else { "" }, depth),
                        observed: format!("differs_from={} root {:016x} vs {:016x} divergent_buckets={:?}{}", da.differs_from(&db), da.root_hash, db.root_hash, div, first.map(|i| format!(" bucket {}: {} vs {}", i, show_node(&da.buckets[i]), show_node(&db.buckets[i]))).unwrap_or_default()),
                        required: "equal states give equal digests: differs_from == false, no divergent bucket".into(),
                    });
                }
            }
            // every bucket node equals the node of the brute-force digest list of that bucket
            let bb = brute_buckets(&content, depth);
            for (i, want) in bb.iter().enumerate() {
                let w = MerkleNode::from_digests(want);
                if !node_eq(&da.buckets[i], &w) {
                    return Some(Found { input: format!("from_state(depth={}) on {}; bucket {}", depth, describe(&content), i), observed: show_node(&da.buckets[i]), required: format!("the node of the {} digests whose key_hash mod 2^depth = {}: {}", want.len(), i, show_node(&w)) });
                }
            }
        }
    }
    None
}

fn brute_divergent(a: &[Vec<KeyDigest>], b: &[Vec<KeyDigest>]) -> Vec<usize> {
    let n = a.len().max(b.len());
    (0..n).filter(|&i| match (a.get(i), b.get(i)) { (Some(x), Some(y)) => x.iter().map(kd).collect::<Vec<_>>() != y.iter().map(kd).collect::<Vec<_>>(), (Some(x), None) => !x.is_empty(), (None, Some(y)) => !y.is_empty(), _ => false }).collect()
}

fn check_unequal_states(rng: &mut Rng, iters: u64) -> Option<Found> {
    for it in 0..iters {
        let n = if it < 4 { [1usize, 2, 8, 40][it as usize] } else { 1 + rng.below(60) as usize };
        let content = gen_content(rng, n);
        if content.is_empty() { continue; }
        let n = content.len();
        // one-key difference
        let mut other = content.clone();
        let j = rng.below(n as u64) as usize;
        let key = content[j].0.clone();
        let what;
        match rng.below(4) {
            0 => { other.remove(j); what = format!("key {:?} missing on the second replica", key); }
            1 => { let t = content[j].1.timestamp.time + 1 + rng.below(4); other[j].1 = gen_value(&key, rng.below(5), t, 1 + rng.below(3)); what = format!("key {:?} rewritten at a later stamp on the second replica: {}", key, show_val(&other[j].1)); }
            2 => { let mut v = other[j].1.clone(); let mut c = lc(v.timestamp.time + rng.below(3), 2); v.delete(&mut c); other[j].1 = v; what = format!("key {:?} deleted (tombstone {}) on the second replica", key, show_val(&other[j].1)); }
            _ => { let r = content[j].1.timestamp.replica_id.0 + 1; other[j].1 = gen_value(&key, 0, content[j].1.timestamp.time, r); what = format!("key {:?} holds a concurrent write of another replica with the same time: {}", key, show_val(&other[j].1)); }
        }
        for depth in [0usize, 1, 3, 6, 8] {
            let a = build(&content, &shuffled(rng, n), false, 0);
            let b = build(&other, &shuffled(rng, other.len()), true, 0);
            let da = StateDigest::from_state(&a, ReplicaId(1), 1, depth);
            let db = StateDigest::from_state(&b, ReplicaId(2), 1, depth);
            let kb = KeyDigest::new(&key, &content[j].1).bucket(depth);
            let div = da.divergent_buckets(&db);
            let div_rev = db.divergent_buckets(&da);
            if !da.differs_from(&db) || !db.differs_from(&da) || div != vec![kb] || div_rev != vec![kb] {
                return Some(Found {
                    input: format!("{}; {}; from_state(depth={})", describe(&content), what, depth),
                    observed: format!("differs_from={} divergent_buckets={:?} (reverse {:?})", da.differs_from(&db), div, div_rev),
                    required: format!("differs_from == true and divergent_buckets == [{}] (the bucket of the key that differs)", kb),
                });
            }
        }
        // arbitrary pair of states, also with different depths (bucket-vector size mismatch): brute-force comparison
        let c2 = { let m = 1 + rng.below(40) as usize; let mut c = gen_content(rng, m); for (k, v) in content.iter() { if rng.chance(1, 2) && !c.iter().any(|(k2, _)| k2 == k) { c.push((k.clone(), v.clone())); } } c };
        for (d1, d2) in [(3usize, 3usize), (2, 4), (5, 1), (0, 2)] {
            let a = build(&content, &shuffled(rng, n), false, 0);
            let b = build(&c2, &shuffled(rng, c2.len()), false, 0);
            let da = StateDigest::from_state(&a, ReplicaId(1), 1, d1);
            let db = StateDigest::from_state(&b, ReplicaId(2), 1, d2);
            let want = if d1 == d2 { brute_divergent(&brute_buckets(&content, d1), &brute_buckets(&c2, d2)) } else {
                // different depths: per definition on the public bucket vectors (same index compared, surplus non-empty ones listed)
                let n = da.buckets.len().max(db.buckets.len());
                (0..n).filter(|&i| match (da.buckets.get(i), db.buckets.get(i)) { (Some(x), Some(y)) => !node_eq(x, y), (Some(x), None) => x.count > 0, (None, Some(y)) => y.count > 0, _ => false }).collect()
            };
            let got = da.divergent_buckets(&db);
            if got != want {
                return Some(Found { input: format!("state A: {}; state B: {}; depths {} and {}", describe(&content), describe(&c2), d1, d2), observed: format!("divergent_buckets={:?}", got), required: format!("exactly the buckets that differ, in increasing order: {:?}", want) });
            }
            if d1 == d2 && da.differs_from(&db) != !want.is_empty() {
                return Some(Found { input: format!("state A: {}; state B: {}; depth {}", describe(&content), describe(&c2), d1), observed: format!("differs_from={}", da.differs_from(&db)), required: format!("{} (buckets that differ: {:?})", !want.is_empty(), want) });
            }
        }
    }
    None
}

/// "never a false in sync" at the bucket fold: DIFFERENT sets of key digests that a commutative-but-linear fold (XOR, wrapping
/// sum, per-component folds) cannot tell apart must hash differently: the same values assigned to the keys the other way round,
/// one value on both keys vs another value on both keys, a difference moved from one key's value hash to the other's.
fn check_fold_binds_values_to_keys(rng: &mut Rng) -> Option<Found> {
    for _ in 0..300 {
        let (k1, k2) = (rng.next(), rng.next());
        let (v1, v2) = (rng.next(), rng.next());
        if k1 == k2 || v1 == v2 { continue; }
        let t = 1 + rng.below(1000);
        let d = |k: u64, v: u64| KeyDigest { key_hash: k, value_hash: v, timestamp: t };
        let delta = 1 + rng.below(1 << 40);
        let cases: Vec<(&str, Vec<KeyDigest>, Vec<KeyDigest>)> = vec![
            ("the two values swapped between the two keys", vec![d(k1, v1), d(k2, v2)], vec![d(k1, v2), d(k2, v1)]),
            ("one value on both keys vs another value on both keys", vec![d(k1, v1), d(k2, v1)], vec![d(k1, v2), d(k2, v2)]),
            ("a difference moved from one value hash to the other (wrapping)", vec![d(k1, v1), d(k2, v2)], vec![d(k1, v1.wrapping_add(delta)), d(k2, v2.wrapping_sub(delta))]),
            ("a bit pattern moved from one value hash to the other (xor)", vec![d(k1, v1), d(k2, v2)], vec![d(k1, v1 ^ delta), d(k2, v2 ^ delta)]),
            ("key hash and value hash exchanged", vec![d(k1, v1)], vec![d(v1, k1)]),
        ];
        for (what, a, b) in cases {
            let (na, nb) = (MerkleNode::from_digests(&a), MerkleNode::from_digests(&b));
            if node_eq(&na, &nb) {
                return Some(Found { input: format!("bucket A = {:?}, bucket B = {:?} ({})", a.iter().map(kd).collect::<Vec<_>>(), b.iter().map(kd).collect::<Vec<_>>(), what),
                    observed: format!("MerkleNode::from_digests gives {} for both", show_node(&na)), required: "different bucket contents hash differently (never a false 'in sync': the sync would exchange nothing)".into() });
            }
        }
    }
    None
}

// ===================== unit digest_value (C18): the value hash covers the WHOLE replicated value =====================
// "never a false in sync": two states that differ in ONE observational component of ONE value (a hash field, a field
// tombstone, a counter slot, a set element / tag, the expiry, a vector-clock entry, the replication factor) must have
// different digests; "never a perpetual false divergent": observationally equal states built in different insertion /
// merge orders (fresh hash tables, zero counter slots, merge(a,b) vs merge(b,a)) must have equal digests.
// Values are generated from DESCRIPTORS so that the same observational content can be built along different routes.

#[derive(Clone, Debug)]
struct FieldD { name: String, val: Option<Vec<u8>>, t: u64, r: u64, tomb: bool }
#[derive(Clone, Debug)]
enum BodyD {
    Lww { val: Option<Vec<u8>>, tomb: bool },
    G(Vec<(u64, u64)>),
    PN(Vec<(u64, u64)>, Vec<(u64, u64)>),
    GS(Vec<String>),
    /// adds in order (element, adding replica), then the elements removed afterwards
    OR(Vec<(String, u64)>, Vec<String>),
    H(Vec<FieldD>),
}
#[derive(Clone, Debug)]
struct ValD { body: BodyD, t: u64, r: u64, expiry: Option<u64>, rf: Option<u8>, vc: Option<Vec<(u64, u64)>> }

fn gen_vald(rng: &mut Rng, kind: u64) -> ValD {
    let t = 10 + rng.below(40);
    let r = 1 + rng.below(3);
    let slots = |rng: &mut Rng| -> Vec<(u64, u64)> { let mut v = Vec::new(); for rid in 1..=4u64 { if rng.chance(2, 3) { v.push((rid, 1 + rng.below(9))); } } v };
    let body = match kind {
        0 => BodyD::Lww { val: Some(format!("v{}_{}", t, r).into_bytes()), tomb: false },
        1 => BodyD::Lww { val: None, tomb: true },
        2 => { let n = 1 + rng.below(5); BodyD::H((0..n).map(|i| { let tomb = rng.chance(1, 4); let ft = 1 + rng.below(t - 1); FieldD { name: format!("f{}", i), val: if tomb { None } else { Some(format!("w{}_{}", i, ft).into_bytes()) }, t: ft, r: 1 + rng.below(3), tomb } }).collect()) }
        3 => BodyD::G(slots(rng)),
        4 => BodyD::PN(slots(rng), slots(rng)),
        5 => { let n = rng.below(5); BodyD::GS((0..n).map(|i| format!("m{}", i)).collect()) }
        _ => {
            let n = 1 + rng.below(6);
            let adds: Vec<(String, u64)> = (0..n).map(|_| (format!("e{}", rng.below(4)), 1 + rng.below(3))).collect();
            let removed = if rng.chance(1, 3) { vec![adds[0].0.clone()] } else { Vec::new() };
            BodyD::OR(adds, removed)
        }
    };
    ValD { body, t, r, expiry: if rng.chance(1, 2) { Some(1000 * (1 + rng.below(9))) } else { None }, rf: if rng.chance(1, 4) { Some(1 + rng.below(4) as u8) } else { None }, vc: if rng.chance(1, 3) { Some(slots(rng)) } else { None } }
}

fn counter_from(rng: &mut Rng, slots: &[(u64, u64)], route: u64) -> GCounter {
    let mut g = GCounter::new();
    let order = shuffled(rng, slots.len());
    if route % 3 == 1 { g.increment_by(ReplicaId(77), 0); } // a zero slot: observationally absent
    match route % 3 {
        2 => { // two halves merged (merge builds a fresh table)
            let mut a = GCounter::new(); let mut b = GCounter::new();
            for (n, &i) in order.iter().enumerate() { if n % 2 == 0 { a.increment_by(ReplicaId(slots[i].0), slots[i].1) } else { b.increment_by(ReplicaId(slots[i].0), slots[i].1) } }
            g = if rng.chance(1, 2) { a.merge(&b) } else { b.merge(&a) };
        }
        _ => { for &i in &order { g.increment_by(ReplicaId(slots[i].0), slots[i].1); } }
    }
    g
}

/// build the value a descriptor denotes; `route` selects insertion order / table capacity / merge order
fn build_val(rng: &mut Rng, d: &ValD, route: u64) -> ReplicatedValue {
    let crdt = match &d.body {
        BodyD::Lww { val, tomb } => CrdtValue::Lww(LwwRegister { value: val.clone().map(SDS::new), timestamp: lc(d.t, d.r), tombstone: *tomb }),
        BodyD::G(s) => CrdtValue::GCounter(counter_from(rng, s, route)),
        BodyD::PN(p, n) => {
            let mut c = PNCounter::new();
            let (op, on) = (shuffled(rng, p.len()), shuffled(rng, n.len()));
            if route % 2 == 1 { for &i in &on { c.decrement_by(ReplicaId(n[i].0), n[i].1); } for &i in &op { c.increment_by(ReplicaId(p[i].0), p[i].1); } c.increment_by(ReplicaId(78), 0); }
            else { for &i in &op { c.increment_by(ReplicaId(p[i].0), p[i].1); } for &i in &on { c.decrement_by(ReplicaId(n[i].0), n[i].1); } }
            CrdtValue::PNCounter(if route % 3 == 2 { c.merge(&PNCounter::new()) } else { c })
        }
        BodyD::GS(e) => {
            let mut g: GSet<String> = GSet::new();
            for &i in &shuffled(rng, e.len()) { g.add(e[i].clone()); }
            CrdtValue::GSet(if route % 3 == 2 { GSet::new().merge(&g) } else { g })
        }
        BodyD::OR(adds, removed) => {
            // tags are (replica, per-replica sequence): the adds keep their order; the routes differ in how the state is assembled
            let cut = if adds.is_empty() { 0 } else { rng.below(adds.len() as u64 + 1) as usize };
            let mut a: ORSet<String> = ORSet::new();
            for (e, r) in &adds[..cut] { a.add(e.clone(), ReplicaId(*r)); }
            let mut b = a.clone();
            for (e, r) in &adds[cut..] { b.add(e.clone(), ReplicaId(*r)); }
            let mut o = match route % 3 { 0 => b, 1 => a.merge(&b), _ => b.merge(&a) };
            for e in removed { o.remove(e); }
            CrdtValue::ORSet(o)
        }
        BodyD::H(fields) => {
            let mut m: HashMap<String, LwwRegister<SDS>> = if route % 3 == 1 { HashMap::with_capacity(256) } else { HashMap::new() };
            if route % 3 == 2 { for i in 0..30 { m.insert(format!("__c{}", i), LwwRegister { value: None, timestamp: lc(1, 1), tombstone: true }); } }
            for &i in &shuffled(rng, fields.len()) { let f = &fields[i]; m.insert(f.name.clone(), LwwRegister { value: f.val.clone().map(SDS::new), timestamp: lc(f.t, f.r), tombstone: f.tomb }); }
            if route % 3 == 2 { for i in 0..30 { m.remove(&format!("__c{}", i)); } }
            CrdtValue::Hash(m)
        }
    };
    let vector_clock = d.vc.as_ref().map(|slots| {
        let mut vc = VectorClock::new();
        let mut todo: Vec<u64> = Vec::new();
        for (rid, n) in slots { for _ in 0..*n { todo.push(*rid); } }
        for &i in &shuffled(rng, todo.len()) { vc.increment(ReplicaId(todo[i])); }
        if route % 2 == 1 { vc.merge(&VectorClock::new()) } else { vc }
    });
    ReplicatedValue { crdt, vector_clock, expiry_ms: d.expiry, timestamp: lc(d.t, d.r), replication_factor: d.rf }
}

/// change exactly ONE observational component; the outer stamp stays (the replica never saw the write that made the difference)
fn mutate_vald(rng: &mut Rng, d: &ValD) -> (ValD, String) {
    let mut m = d.clone();
    let bump = |v: &mut Vec<(u64, u64)>, rng: &mut Rng| -> String {
        if !v.is_empty() && rng.chance(1, 2) { let i = rng.below(v.len() as u64) as usize; v[i].1 += 1; format!("slot of replica {} is {} instead of {}", v[i].0, v[i].1, v[i].1 - 1) }
        else { let rid = 5 + rng.below(3); v.push((rid, 1 + rng.below(5))); format!("an extra slot for replica {}", rid) }
    };
    for _ in 0..20 {
        match rng.below(8) {
            0 => { m.expiry = match m.expiry { None => Some(5000), Some(e) => if rng.chance(1, 3) { None } else { Some(e + 1) } }; return (m.clone(), format!("expiry {:?} instead of {:?}", m.expiry, d.expiry)); }
            1 => { let mut v = m.vc.clone().unwrap_or_default(); let what = bump(&mut v, rng); m.vc = Some(v); return (m, format!("vector clock: {}{}", what, if d.vc.is_none() { " (none on the other side)" } else { "" })); }
            2 => { m.rf = match m.rf { None => Some(2), Some(x) => Some(x + 1) }; return (m.clone(), format!("replication factor {:?} instead of {:?}", m.rf, d.rf)); }
            _ => {}
        }
        match &mut m.body {
            BodyD::H(f) => {
                let t_max = d.t;
                match rng.below(4) {
                    0 => { let name = format!("g{}", f.len()); f.push(FieldD { name: name.clone(), val: Some(b"extra".to_vec()), t: 1 + rng.below(t_max - 1), r: 1 + rng.below(3), tomb: false }); return (m.clone(), format!("hash holds one more field {:?} (older than the value's stamp: the other replica never received it)", name)); }
                    1 if f.len() > 1 => { let x = f.remove(0); return (m.clone(), format!("hash lacks field {:?}", x.name)); }
                    2 => { if let Some(x) = f.iter_mut().find(|x| !x.tomb) { x.tomb = true; x.val = None; x.t = (x.t + 1).min(t_max); let n = x.name.clone(); return (m.clone(), format!("field {:?} is tombstoned (HDEL) instead of live", n)); } }
                    _ => { if let Some(x) = f.iter_mut().find(|x| !x.tomb) { x.val = Some(b"rewritten".to_vec()); x.t = (x.t + 1).min(t_max); x.r = x.r % 3 + 1; let n = x.name.clone(); return (m.clone(), format!("field {:?} holds another write (other stamp and payload)", n)); } }
                }
            }
            BodyD::G(s) => { let w = bump(s, rng); return (m, format!("gcounter: {}", w)); }
            BodyD::PN(p, n) => { let neg = rng.chance(1, 2); let w = bump(if neg { n } else { p }, rng); return (m, format!("pncounter {} half: {}", if neg { "negative" } else { "positive" }, w)); }
            BodyD::GS(e) => { let x = format!("x{}", e.len()); e.push(x.clone()); return (m, format!("gset holds one more element {:?}", x)); }
            BodyD::OR(adds, removed) => {
                if rng.chance(1, 2) || !removed.is_empty() { let x = (format!("e{}", rng.below(6)), 1 + rng.below(3)); adds.push(x.clone()); removed.retain(|e| *e != x.0); return (m.clone(), format!("orset saw one more add of {:?} by replica {}", x.0, x.1)); }
                else { let x = adds[adds.len() - 1].0.clone(); removed.push(x.clone()); return (m.clone(), format!("orset element {:?} was removed", x)); }
            }
            BodyD::Lww { .. } => {}
        }
    }
    m.expiry = Some(d.expiry.unwrap_or(0) + 7);
    (m.clone(), format!("expiry {:?} instead of {:?}", m.expiry, d.expiry))
}

fn show_vald(d: &ValD) -> String {
    let body = match &d.body {
        BodyD::Lww { val, tomb } => format!("Lww(val={:?}, tombstone={})", val.as_ref().map(|v| String::from_utf8_lossy(v).to_string()), tomb),
        BodyD::G(s) => format!("GCounter{:?}", s),
        BodyD::PN(p, n) => format!("PNCounter(+{:?}, -{:?})", p, n),
        BodyD::GS(e) => format!("GSet{:?}", e),
        BodyD::OR(a, r) => format!("ORSet(adds={:?}, then removed={:?})", a, r),
        BodyD::H(f) => format!("Hash{{{}}}", f.iter().map(|x| format!("{}{}@({},{})", x.name, if x.tomb { "[tombstone]".to_string() } else { format!("={:?}", x.val.as_ref().map(|v| String::from_utf8_lossy(v).to_string()).unwrap_or_default()) }, x.t, x.r)).collect::<Vec<_>>().join(", ")),
    };
    format!("{} stamp=({},{}) expiry={:?} rf={:?} vc={:?}", body, d.t, d.r, d.expiry, d.rf, d.vc)
}

/// the run of DESIGN.md §7.2: two connected replicas, one delta lost, anti-entropy compares digests
fn scenario_lost_delta() -> Option<Found> {
    let mut a = ShardReplicaState::new(ReplicaId(1), ConsistencyLevel::Eventual);
    let mut b = ShardReplicaState::new(ReplicaId(2), ConsistencyLevel::Eventual);
    for i in 0..3 { let d = a.record_write(format!("warm{}", i), SDS::from_str("x"), None); b.apply_remote_delta(d); }
    let lost = a.record_hash_write("h".to_string(), vec![("f".to_string(), SDS::from_str("1"))]);   // A: HSET h f 1 - this delta never reaches B
    for i in 0..2 { let d = b.record_write(format!("warmb{}", i), SDS::from_str("y"), None); a.apply_remote_delta(d); }
    let d = b.record_hash_write("h".to_string(), vec![("g".to_string(), SDS::from_str("2"))]);      // B: HSET h g 2 - reaches A
    a.apply_remote_delta(d);
    let (va, vb) = (a.get_replicated("h")?.clone(), b.get_replicated("h")?.clone());
    let (fa, fb) = (va.hash_get("f").is_some(), vb.hash_get("f").is_some());
    let (da, db) = (StateDigest::from_state(&a.replicated_keys, ReplicaId(1), 1, 4), StateDigest::from_state(&b.replicated_keys, ReplicaId(2), 1, 4));
    if fa != fb && (!da.differs_from(&db) || da.divergent_buckets(&db).is_empty() || KeyDigest::new("h", &va).value_hash == KeyDigest::new("h", &vb).value_hash) {
        return Some(Found {
            input: format!("replica A: HSET h f 1 (stamp ({},{}); the delta to B is lost); replica B: HSET h g 2, delta applied on A. A holds h = {} ; B holds h = {}; both run StateDigest::from_state(depth 4)", lost.value.timestamp.time, lost.value.timestamp.replica_id.0, crate::lattice::obs(&va), crate::lattice::obs(&vb)),
            observed: format!("differs_from={} divergent_buckets={:?} value_hash {:016x} vs {:016x}: the replicas look in sync, anti-entropy never ships field f to B (HGET h f: A={} B={})", da.differs_from(&db), da.divergent_buckets(&db), KeyDigest::new("h", &va).value_hash, KeyDigest::new("h", &vb).value_hash, fa, fb),
            required: "states that differ in a hash field have different digests (never a false 'in sync')".into(),
        });
    }
    None
}

/// survey (obligation id ending in "#kinds"): for every CRDT kind and every one-component change, does the value hash see it?
fn survey_kinds(rng: &mut Rng) -> Option<Found> {
    let names = ["Lww(live)", "Lww(tombstone)", "Hash", "GCounter", "PNCounter", "GSet", "ORSet"];
    let mut blind: Vec<String> = Vec::new();
    let mut seen: Vec<String> = Vec::new();
    for kind in 0..7u64 {
        for _ in 0..300 {
            let d = gen_vald(rng, kind);
            let (md, what) = mutate_vald(rng, &d);
            let class: String = format!("{}: {}", names[kind as usize], what.split(|c: char| c.is_ascii_digit() || c == '"' || c == '(').next().unwrap_or("").trim());
            if seen.contains(&class) { continue; }
            seen.push(class.clone());
            let (a, b) = (build_val(rng, &d, 0), build_val(rng, &md, 0));
            if KeyDigest::new("k", &a).value_hash == KeyDigest::new("k", &b).value_hash {
                blind.push(format!("{} [A = {} | B: {}]", class, show_vald(&d), what));
            }
        }
    }
    if blind.is_empty() { return None; }
    Some(Found { input: format!("{} classes of one-component differences tried (same key, same outer stamp)", seen.len()), observed: format!("KeyDigest::new gives EQUAL value_hash for {} of them: {}", blind.len(), blind.join(" ;; ")), required: "a different value_hash for every observational difference".into() })
}

fn check_value_coverage(rng: &mut Rng, iters: u64) -> Option<Found> {
    if let Some(x) = scenario_lost_delta() { return Some(x); }
    for it in 0..iters {
        let n = 1 + rng.below(12) as usize;
        let descs: Vec<(String, ValD)> = (0..n).map(|i| { let kind = if it < 14 && i == 0 { it % 7 } else { rng.below(7) }; (format!("key{}", i), gen_vald(rng, kind)) }).collect();
        let depth = *rng.pick(&[0usize, 2, 4, 8]);
        let state = |rng: &mut Rng, ds: &Vec<(String, ValD)>, route: u64| -> HashMap<String, ReplicatedValue> {
            let content: Content = ds.iter().map(|(k, d)| { let rt = route + rng.below(3); (k.clone(), build_val(rng, d, rt)) }).collect();
            build(&content, &shuffled(rng, content.len()), route % 2 == 1, 0)
        };
        // (1) equal content along different routes: equal digests
        let s0 = state(rng, &descs, 0);
        let d0 = StateDigest::from_state(&s0, ReplicaId(1), 1, depth);
        for route in 1..4u64 {
            let s1 = state(rng, &descs, route);
            let d1 = StateDigest::from_state(&s1, ReplicaId(2), 1, depth);
            if d0.differs_from(&d1) || !d0.divergent_buckets(&d1).is_empty() {
                let bad = descs.iter().find(|(k, _)| KeyDigest::new(k, &s0[k]).value_hash != KeyDigest::new(k, &s1[k]).value_hash);
                return Some(Found {
                    input: format!("two replicas hold observationally equal states of {} keys built along different insertion/merge routes; from_state(depth={}){}", n, depth, bad.map(|(k, d)| format!("; key {:?} = {}", k, show_vald(d))).unwrap_or_default()),
                    observed: format!("differs_from={} divergent_buckets={:?}{}", d0.differs_from(&d1), d0.divergent_buckets(&d1), bad.map(|(k, _)| format!("; value_hash {:016x} vs {:016x}; A: {:?}; B: {:?}", KeyDigest::new(k, &s0[k]).value_hash, KeyDigest::new(k, &s1[k]).value_hash, s0[k].crdt, s1[k].crdt)).unwrap_or_default()),
                    required: "observationally equal states give equal digests whatever the insertion or merge order (never a perpetual false 'divergent')".into(),
                });
            }
        }
        // (2) one observational component of one value differs: different digests, and exactly that key's bucket diverges
        let j = if it < 14 { 0 } else { rng.below(n as u64) as usize };
        let (md, what) = mutate_vald(rng, &descs[j].1);
        let mut descs2 = descs.clone();
        descs2[j].1 = md.clone();
        let route2 = rng.below(4);
        let s2 = state(rng, &descs2, route2);
        let d2 = StateDigest::from_state(&s2, ReplicaId(2), 1, depth);
        let key = &descs[j].0;
        let kb = KeyDigest::new(key, &s0[key]).bucket(depth);
        let (ka, kc) = (KeyDigest::new(key, &s0[key]), KeyDigest::new(key, &s2[key]));
        if !d0.differs_from(&d2) || d0.divergent_buckets(&d2) != vec![kb] || ka.value_hash == kc.value_hash {
            return Some(Found {
                input: format!("replica A holds {:?} = {}; replica B holds the same {} keys except: {}; from_state(depth={})", key, show_vald(&descs[j].1), n, what, depth),
                observed: format!("differs_from={} divergent_buckets={:?} value_hash {:016x} vs {:016x}", d0.differs_from(&d2), d0.divergent_buckets(&d2), ka.value_hash, kc.value_hash),
                required: format!("different digests: differs_from == true and divergent_buckets == [{}] (never a false 'in sync')", kb),
            });
        }
    }
    None
}

pub fn search(_pid: &str, oid: &str, seed: u64) -> Option<Found> {
    let mut rng = Rng::new(seed + 18);
    let f = oid.split('/').nth(1).unwrap_or("");
    // the sub-battery closest to the refuted obligation first, then everything
    if oid.ends_with("#kinds") { return survey_kinds(&mut rng); }
    if oid.starts_with("digest_value") || f.starts_with("KeyDigest::new") { if let Some(x) = check_value_coverage(&mut rng, 400) { return Some(x); } }
    if f.starts_with("MerkleNode") || f.contains("bucket_order") || f.contains("canonical") { if let Some(x) = check_node_perm(&mut rng, 300) { return Some(x); } }
    if f.starts_with("StateDigest") { if let Some(x) = check_equal_states(&mut rng, 30) { return Some(x); } if let Some(x) = check_unequal_states(&mut rng, 100) { return Some(x); } }
    if f.starts_with("KeyDigest::bucket") { if let Some(x) = check_bucket_range(&mut rng) { return Some(x); } }
    if let Some(x) = check_fold_binds_values_to_keys(&mut rng) { return Some(x); }
    if let Some(x) = check_bucket_range(&mut rng) { return Some(x); }
    if let Some(x) = check_key_digest(&mut rng) { return Some(x); }
    if let Some(x) = check_node_perm(&mut rng, 600) { return Some(x); }
    if let Some(x) = check_equal_states(&mut rng, 60) { return Some(x); }
    if let Some(x) = check_unequal_states(&mut rng, 200) { return Some(x); }
    if let Some(x) = check_value_coverage(&mut rng, 300) { return Some(x); }
    None
}
