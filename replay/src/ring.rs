//! Unit `ring` (C19): key placement is a function of the membership set; selective gossip reaches every owner.
//! The real HashRing / GossipRouter are compared with an independent rendering of "the first min(rf, |members|)
//! distinct physical nodes clockwise from the key's position" and with the routing table that follows from it.
use crate::rng::Rng;
use crate::Found;
use redis_sim::redis::SDS;
use redis_sim::replication::gossip_router::GossipRouter;
use redis_sim::replication::hash_ring::HashRing;
use redis_sim::replication::lattice::{LamportClock, ReplicaId};
use redis_sim::replication::state::{ReplicatedValue, ReplicationDelta};
use std::collections::hash_map::DefaultHasher;
use std::collections::HashMap;
use std::hash::{Hash, Hasher};
use std::sync::{Arc, RwLock};

fn vpos(node: u64, i: u32) -> u64 { let mut h = DefaultHasher::new(); node.hash(&mut h); i.hash(&mut h); h.finish() }
fn kpos(key: &str) -> u64 { let mut h = DefaultHasher::new(); key.hash(&mut h); h.finish() }

/// the ring as a function of the membership SET: slots sorted by position
struct Model { slots: Vec<(u64, u64)>, members: usize }
impl Model {
    fn new(members: &[u64], vn: u32) -> Self {
        let mut set: Vec<u64> = members.to_vec(); set.sort(); set.dedup();
        let mut slots: Vec<(u64, u64)> = Vec::new();
        for &m in &set { for i in 0..vn { slots.push((vpos(m, i), m)); } }
        slots.sort();
        Model { slots, members: set.len() }
    }
    fn replicas(&self, key: &str, rf: usize) -> Vec<u64> {
        let n = rf.min(self.members);
        let mut out: Vec<u64> = Vec::new();
        if self.slots.is_empty() { return out; }
        let kp = kpos(key);
        let start = self.slots.partition_point(|(p, _)| *p < kp) % self.slots.len();
        for step in 0..self.slots.len() {
            if out.len() >= n { break; }
            let node = self.slots[(start + step) % self.slots.len()].1;
            if !out.contains(&node) { out.push(node); }
        }
        out
    }
}

fn ids(v: &[ReplicaId]) -> Vec<u64> { v.iter().map(|r| r.0).collect() }
fn rids(v: &[u64]) -> Vec<ReplicaId> { v.iter().map(|r| ReplicaId::new(*r)).collect() }

fn keys(rng: &mut Rng, n: usize) -> Vec<String> {
    let mut k: Vec<String> = vec!["".into(), "a".into(), "ключ".into(), "键".into(), "user:1".into(), "key_484".into()];
    for i in 0..n { k.push(format!("key_{}", i)); }
    for _ in 0..n / 4 { k.push(format!("r{:x}", rng.next())); }
    k
}

fn shuffled<T: Clone>(rng: &mut Rng, v: &[T]) -> Vec<T> {
    let mut v = v.to_vec();
    for i in (1..v.len()).rev() { let j = rng.below(i as u64 + 1) as usize; v.swap(i, j); }
    v
}

fn cfg(members: &[u64], vn: u32, rf: usize) -> String { format!("members joined in order {:?}, {} virtual nodes each, replication factor {}", members, vn, rf) }

fn check_placement(members: &[u64], vn: u32, rf: usize, ks: &[String], rng: &mut Rng) -> Option<Found> {
    let ring = HashRing::new(rids(members), vn, rf);
    let model = Model::new(members, vn);
    let nset = model.members;
    if ring.node_count() != nset { return Some(Found { input: cfg(members, vn, rf), observed: format!("node_count {}", ring.node_count()), required: format!("{} distinct members", nset) }); }
    // other join orders / histories of the same membership set
    let mut others: Vec<(String, HashRing)> = Vec::new();
    let mut rev = members.to_vec(); rev.reverse();
    others.push((format!("join order {:?}", rev), HashRing::new(rids(&rev), vn, rf)));
    let sh = shuffled(rng, members);
    let mut r2 = HashRing::new(vec![], vn, rf);
    for &m in &sh { r2.add_node(ReplicaId::new(m)); }
    if let Some(&x) = sh.first() { r2.remove_node(ReplicaId::new(x)); r2.add_node(ReplicaId::new(x)); r2.add_node(ReplicaId::new(x)); }
    others.push((format!("add_node in order {:?}, then the first one removed and re-added twice", sh), r2));
    let mut r3 = HashRing::new(rids(&shuffled(rng, members)), vn, rf);
    let ghost = members.iter().max().map(|m| m.wrapping_add(1000)).unwrap_or(7);
    if !members.contains(&ghost) { r3.add_node(ReplicaId::new(ghost)); r3.remove_node(ReplicaId::new(ghost)); r3.remove_node(ReplicaId::new(ghost)); }
    others.push((format!("a shuffled join order plus node {} joined and left", ghost), r3));

    for k in ks {
        let got = ids(&ring.get_replicas(k));
        let want = model.replicas(k, rf);
        let mut dd = got.clone(); dd.sort(); dd.dedup();
        if got.len() != rf.min(nset) || dd.len() != got.len() || got.iter().any(|g| !members.contains(g)) {
            return Some(Found { input: format!("{}; get_replicas({:?})", cfg(members, vn, rf), k), observed: format!("{:?}", got), required: format!("exactly min(rf, cluster size) = {} distinct members (placement by the ring: {:?})", rf.min(nset), want) });
        }
        if got != want {
            return Some(Found { input: format!("{}; get_replicas({:?})", cfg(members, vn, rf), k), observed: format!("{:?}", got), required: format!("the first {} distinct nodes clockwise from the key's ring position: {:?}", rf.min(nset), want) });
        }
        for (what, o) in &others {
            let g2 = ids(&o.get_replicas(k));
            if g2 != got {
                return Some(Found { input: format!("{}; same membership built as: {}; get_replicas({:?})", cfg(members, vn, rf), what, k), observed: format!("{:?} vs {:?}", got, g2), required: "every node computes the same ordered replica list from the same membership set".into() });
            }
        }
        for r in [0usize, 1, 2, rf, nset, nset + 3] {
            let g = ids(&ring.get_replicas_with_rf(k, r));
            let w = model.replicas(k, r);
            if g != w {
                return Some(Found { input: format!("{}; get_replicas_with_rf({:?}, {})", cfg(members, vn, rf), k, r), observed: format!("{:?}", g), required: format!("{:?} (min(rf, cluster size) = {} distinct members, clockwise order)", w, r.min(nset)) });
            }
        }
        if ring.is_responsible(k, ReplicaId::new(members[0])) != want.contains(&members[0]) || ring.get_primary(k).map(|p| p.0) != want.first().cloned() {
            return Some(Found { input: format!("{}; key {:?}", cfg(members, vn, rf), k), observed: format!("is_responsible({})={} primary={:?}", members[0], ring.is_responsible(k, ReplicaId::new(members[0])), ring.get_primary(k)), required: format!("consistent with the replica list {:?}", want) });
        }
    }
    None
}

fn check_membership_change(members: &[u64], vn: u32, rf: usize, ks: &[String], rng: &mut Rng) -> Option<Found> {
    let mut set: Vec<u64> = members.to_vec(); set.sort(); set.dedup();
    let base = HashRing::new(rids(members), vn, rf);
    let x = *rng.pick(&set);
    let mut removed = base.clone(); removed.remove_node(ReplicaId::new(x));
    let mut readded = removed.clone(); readded.add_node(ReplicaId::new(x));
    // a node id that is NOT a member (the maximum may be u64::MAX: wrapping could land on a member)
    let mut y = set.iter().max().unwrap_or(&0).wrapping_add(1 + rng.below(50));
    while set.contains(&y) { y = y.wrapping_add(1); }
    let mut grown = base.clone(); grown.add_node(ReplicaId::new(y));
    if removed.contains_node(ReplicaId::new(x)) || removed.node_count() != set.len() - 1 || !grown.contains_node(ReplicaId::new(y)) || grown.node_count() != set.len() + 1 {
        return Some(Found { input: format!("{}; remove_node({}) / add_node({})", cfg(members, vn, rf), x, y), observed: format!("node counts {} and {}", removed.node_count(), grown.node_count()), required: "membership minus / plus that node".into() });
    }
    for k in ks {
        let before = ids(&base.get_replicas(k));
        let after = ids(&removed.get_replicas(k));
        let full_before = ids(&base.get_replicas_with_rf(k, set.len()));
        let full_after = ids(&removed.get_replicas_with_rf(k, set.len()));
        let want_full: Vec<u64> = full_before.iter().cloned().filter(|n| *n != x).collect();
        let want_after: Vec<u64> = want_full.iter().cloned().take(rf.min(set.len() - 1)).collect();
        if (!before.contains(&x) && after != before) || full_after != want_full || after != want_after {
            return Some(Found { input: format!("{}; key {:?}; remove_node({})", cfg(members, vn, rf), k, x), observed: format!("replicas {:?} -> {:?} (full preference order {:?} -> {:?})", before, after, full_before, full_after), required: format!("removing a node changes placement only for keys that lose it: {:?} (preference order {:?})", want_after, want_full) });
        }
        let back = ids(&readded.get_replicas(k));
        if back != before {
            return Some(Found { input: format!("{}; key {:?}; remove_node({}) then add_node({})", cfg(members, vn, rf), k, x, x), observed: format!("{:?}", back), required: format!("the placement of the same membership set: {:?}", before) });
        }
        let g = ids(&grown.get_replicas(k));
        let gfull = ids(&grown.get_replicas_with_rf(k, set.len() + 1));
        let gfull_wo: Vec<u64> = gfull.iter().cloned().filter(|n| *n != y).collect();
        if (g != before && !g.contains(&y)) || gfull_wo != full_before {
            return Some(Found { input: format!("{}; key {:?}; add_node({})", cfg(members, vn, rf), k, y), observed: format!("replicas {:?} -> {:?} (full preference order {:?} -> {:?})", before, g, full_before, gfull), required: "adding a node changes placement only for keys that gain it".into() });
        }
    }
    None
}

fn delta(key: &str, i: u64) -> ReplicationDelta {
    ReplicationDelta::new(key.to_string(), ReplicatedValue::with_value(SDS::from_str(&format!("v{}", i)), LamportClock { time: i + 1, replica_id: ReplicaId::new(1) }), ReplicaId::new(1))
}

fn check_router(members: &[u64], vn: u32, rf: usize, ks: &[String], rng: &mut Rng) -> Option<Found> {
    let mut set: Vec<u64> = members.to_vec(); set.sort(); set.dedup();
    let model = Model::new(members, vn);
    let ring = Arc::new(RwLock::new(HashRing::new(rids(members), vn, rf)));
    for round in 0..3 {
        let sender = if round == 2 { set.iter().max().unwrap_or(&0).wrapping_add(77) } else { *rng.pick(&set) };
        // addresses: most members, sometimes not all; sometimes the sender itself and a non-member are listed too
        let mut addr: HashMap<ReplicaId, String> = HashMap::new();
        for &m in &set { if m != sender && !(round == 1 && rng.chance(1, 4)) { addr.insert(ReplicaId::new(m), format!("10.0.0.{}:7000", m % 250)); } }
        if rng.chance(1, 2) { addr.insert(ReplicaId::new(sender), "127.0.0.1:7000".into()); }
        let stranger = set.iter().max().unwrap_or(&0).wrapping_add(500);
        if rng.chance(1, 2) { addr.insert(ReplicaId::new(stranger), "10.9.9.9:7000".into()); }
        let with_addr: Vec<u64> = { let mut a: Vec<u64> = addr.keys().map(|r| r.0).collect(); a.sort(); a };
        let nb = 1 + rng.below(40) as usize;
        let batch: Vec<ReplicationDelta> = (0..nb).map(|i| { let k: &String = rng.pick(ks); delta(k.as_str(), i as u64) }).collect();
        let tag = |d: &ReplicationDelta| format!("{}#{}", d.key, d.value.timestamp.time);
        let describe = format!("{}; sender {}; peers with an address {:?}; batch of {} updates on keys {:?}", cfg(members, vn, rf), sender, with_addr, nb, batch.iter().map(|d| d.key.clone()).collect::<Vec<_>>());
        // selective
        let router = GossipRouter::new(ring.clone(), ReplicaId::new(sender), addr.clone(), true);
        let table = router.route_deltas(batch.clone());
        let mut want: HashMap<u64, Vec<String>> = HashMap::new();
        for d in &batch { for t in model.replicas(&d.key, rf) { if t != sender && addr.contains_key(&ReplicaId::new(t)) { want.entry(t).or_default().push(tag(d)); } } }
        let got: HashMap<u64, Vec<String>> = table.iter().map(|(t, ds)| (t.0, ds.iter().map(tag).collect())).collect();
        if got != want {
            let mut all: Vec<u64> = got.keys().chain(want.keys()).cloned().collect(); all.sort(); all.dedup();
            let t = all.into_iter().find(|t| got.get(t) != want.get(t)).unwrap_or(0);
            return Some(Found { input: format!("{}; route_deltas (selective)", describe), observed: format!("target {} receives {:?}", t, got.get(&t)), required: format!("target {} receives {:?}: each update goes to every responsible replica other than the sender (that has an address) and to nobody else", t, want.get(&t)) });
        }
        // owner coverage seen from the ring itself: every responsible replica != sender with an address holds the update
        {
            let r = ring.read().unwrap();
            for d in &batch { for t in r.get_replicas(&d.key) { if t.0 != sender && addr.contains_key(&t) && !table.get(&t).map(|v| v.iter().any(|x| tag(x) == tag(d))).unwrap_or(false) {
                return Some(Found { input: format!("{}; route_deltas (selective)", describe), observed: format!("owner {} of key {:?} is not handed the update", t.0, d.key), required: "no owner is starved of an update".into() });
            } } }
        }
        // broadcast
        let router = GossipRouter::new(ring.clone(), ReplicaId::new(sender), addr.clone(), false);
        let table = router.route_deltas(batch.clone());
        let want_targets: Vec<u64> = with_addr.iter().cloned().filter(|t| *t != sender).collect();
        let mut got_targets: Vec<u64> = table.keys().map(|r| r.0).collect(); got_targets.sort();
        let all_tags: Vec<String> = batch.iter().map(tag).collect();
        if got_targets != want_targets || table.values().any(|v| v.iter().map(tag).collect::<Vec<_>>() != all_tags) {
            return Some(Found { input: format!("{}; route_deltas (broadcast)", describe), observed: format!("targets {:?}", got_targets), required: format!("every peer other than the sender gets the whole batch: {:?}", want_targets) });
        }
    }
    None
}

pub fn search(_pid: &str, oid: &str, seed: u64) -> Option<Found> {
    let mut rng = Rng::new(seed + 19);
    let f = oid.split('/').nth(1).unwrap_or("");
    let router_first = f.starts_with("GossipRouter");
    // structured family: small rings where wrap-around and rf == cluster size are common, then the default shape
    let mut configs: Vec<(Vec<u64>, u32, usize)> = Vec::new();
    for n in 1..=6u64 { for &vn in &[1u32, 2, 3, 8] { for &rf in &[1usize, 2, 3, n as usize, n as usize + 2] { configs.push(((1..=n).collect(), vn, rf)); } } }
    configs.push(((1..=5).collect(), 150, 3));
    configs.push((vec![5, 3, 1, 4, 2], 150, 3));
    configs.push((vec![0, u64::MAX, 1 << 63, 42], 16, 2));
    configs.push((vec![1, 2, 2, 3, 1], 4, 2));
    configs.push(((1..=3).collect(), 50, 0));
    for _ in 0..60 {
        let n = 1 + rng.below(8);
        let mut m: Vec<u64> = (0..n).map(|_| if rng.chance(1, 5) { rng.next() } else { 1 + rng.below(12) }).collect();
        let mut seen = Vec::new(); m.retain(|x| if seen.contains(x) { false } else { seen.push(*x); true });
        configs.push((m, *rng.pick(&[1u32, 2, 3, 5, 8, 16, 50, 150]), *rng.pick(&[1usize, 2, 3, 4, 8])));
    }
    if router_first {
        for (members, vn, rf) in configs.iter() {
            let ks = keys(&mut rng, 300);
            if let Some(x) = check_router(members, *vn, *rf, &ks, &mut rng) { return Some(x); }
        }
    }
    for (members, vn, rf) in configs.iter() {
        let ks = keys(&mut rng, if *vn >= 50 { 1500 } else { 300 });
        if let Some(x) = check_placement(members, *vn, *rf, &ks, &mut rng) { return Some(x); }
    }
    for (members, vn, rf) in configs.iter() {
        let ks = keys(&mut rng, if *vn >= 50 { 1500 } else { 300 });
        if let Some(x) = check_membership_change(members, *vn, *rf, &ks, &mut rng) { return Some(x); }
        if let Some(x) = check_router(members, *vn, *rf, &ks, &mut rng) { return Some(x); }
    }
    None
}
