//! Unit `wal_discovery` (C10, C09): start-up of the REAL WalRotator over a store that already holds files.
//! A store (InMemoryWalStore) is pre-populated with files of arbitrary names (canonical WAL names of any width,
//! non-canonical spellings that still parse, names that do not parse, the extreme sequence numbers) holding real
//! entries; then WalRotator::new + append + sync + recover_all_entries are run and compared with the contract:
//!   * nothing panics, whatever the names are;
//!   * the sequence the first append reports is strictly greater than the sequence of every existing WAL file;
//!   * no existing file changes (same names, same bytes);
//!   * recovery returns the old entries in numeric sequence order followed by the new ones;
//!   * parse(format(n)) == Some(n), observed through the store: the file created for sequence n is listed under a name
//!     that an independent reference parser maps back to n.
use crate::deltas::lc;
use crate::rng::Rng;
use crate::Found;
use redis_sim::redis::SDS;
use redis_sim::replication::lattice::ReplicaId;
use redis_sim::replication::state::{ReplicatedValue, ReplicationDelta};
use redis_sim::streaming::wal::WalEntry;
use redis_sim::streaming::wal_store::{InMemoryWalStore, WalFileWriter, WalStore};
use redis_sim::streaming::WalRotator;
use std::panic::{catch_unwind, AssertUnwindSafe};

/// independent reference of the name -> sequence relation (the specification `parsed_seq` of the Verus unit)
fn ref_parse(name: &str) -> Option<u64> {
    let b = name.as_bytes();
    if b.len() < 8 || &b[..4] != b"wal-" || &b[b.len() - 4..] != b".wal" { return None; }
    let mut mid = &b[4..b.len() - 4];
    if !mid.is_empty() && mid[0] == b'+' { mid = &mid[1..]; }
    if mid.is_empty() { return None; }
    let mut v: u128 = 0;
    for &c in mid {
        let d = match c { b'0'..=b'9' => c - b'0', b'a'..=b'f' => c - b'a' + 10, b'A'..=b'F' => c - b'A' + 10, _ => return None };
        v = v * 16 + d as u128;
        if v > u64::MAX as u128 { return None; }
    }
    Some(v as u64)
}

fn entry(tag: &str, ts: u64) -> WalEntry {
    let d = ReplicationDelta::new(tag.to_string(), ReplicatedValue::with_value(SDS::from_str(tag), lc(ts, 1)), ReplicaId(1));
    WalEntry::from_delta(&d, ts).expect("from_delta")
}

/// a complete WAL file image: 16-byte header (magic "RWAL"/version as the crate writes them, taken from a file the crate
/// itself produced) + the given entries
fn file_image(header_from: &[u8], seq: u64, entries: &[WalEntry]) -> Vec<u8> {
    let mut v = header_from[..16].to_vec();
    v[8..16].copy_from_slice(&seq.to_le_bytes());
    for e in entries { v.extend_from_slice(&e.encode()); }
    v
}

fn sample_header() -> Vec<u8> {
    let s = InMemoryWalStore::new();
    let mut r = WalRotator::new(s.clone(), 1 << 20).expect("new");
    r.append(&entry("h", 1)).expect("append");
    let name = s.list().expect("list").pop().expect("one file");
    s.get_file_data(&name).expect("data")[..16].to_vec()
}

fn trial(names: &[String], header: &[u8]) -> Option<Found> {
    let show = format!("InMemoryWalStore pre-populated with files {:?} (each: valid header + one entry tagged with its own name, stamp = 10 + index); then WalRotator::new(store, 4096), append(entry \"new\" stamped 1000), sync(), recover_all_entries()", names);
    let store = InMemoryWalStore::new();
    let mut before: Vec<(String, Vec<u8>)> = Vec::new();
    for (i, n) in names.iter().enumerate() {
        if n.is_empty() || before.iter().any(|(m, _)| m == n) { continue; }
        let img = file_image(header, ref_parse(n).unwrap_or(0), &[entry(n, 10 + i as u64)]);
        let mut w = store.create(n).ok()?;
        w.append(&img).ok()?;
        w.sync().ok()?;
        before.push((n.clone(), img));
    }
    let existing: Vec<u64> = before.iter().filter_map(|(n, _)| ref_parse(n)).collect();
    let st = store.clone();
    let out = catch_unwind(AssertUnwindSafe(move || {
        let mut rot = WalRotator::new(st, 4096)?;
        let discovered = rot.current_sequence();
        let seq = rot.append(&entry("new", 1000))?;
        rot.sync()?;
        let rec = rot.recover_all_entries()?;
        Ok::<_, redis_sim::streaming::wal_store::WalError>((discovered, seq, rec))
    }));
    let (discovered, seq, rec) = match out {
        Err(p) => {
            let msg = p.downcast_ref::<String>().cloned().or_else(|| p.downcast_ref::<&str>().map(|s| s.to_string())).unwrap_or_default();
            return Some(Found { input: show, observed: format!("panic during start-up / first append: {:?}", msg), required: "start-up over any set of existing files neither panics nor reuses a sequence: WalRotator::new returns Ok only with current_sequence < u64::MAX (the precondition of append/rotate), or an error".into() });
        }
        Ok(Err(_)) => return None, // an error at start-up is acceptable (nothing acknowledged, nothing overwritten) - checked below only for Ok
        Ok(Ok(x)) => x,
    };
    if let Some(m) = existing.iter().max() {
        if discovered < *m || seq <= *m {
            return Some(Found { input: show, observed: format!("discovered sequence {}, first append went to sequence {}, but an existing WAL file has sequence {}", discovered, seq, m), required: "the new active file's sequence is strictly greater than that of every existing WAL file".into() });
        }
    }
    for (n, img) in &before {
        match store.get_file_data(n) {
            Some(d) if &d == img => {}
            other => return Some(Found { input: show, observed: format!("existing file {:?} changed: {} bytes before, {:?} bytes after", n, img.len(), other.map(|d| d.len())), required: "no existing file is truncated, overwritten or deleted at start-up".into() }),
        }
    }
    // exactly one new file, listed under a name that parses back to the reported sequence
    let listed = store.list().ok()?;
    let fresh: Vec<&String> = listed.iter().filter(|n| !before.iter().any(|(m, _)| m == *n)).collect();
    if fresh.len() != 1 || ref_parse(fresh[0]) != Some(seq) {
        return Some(Found { input: show, observed: format!("new files {:?}; append reported sequence {}", fresh, seq), required: "one new file whose name parses back to its sequence (parse(format(n)) == Some(n))".into() });
    }
    // recovery: old entries in numeric order of their files' sequences (ties: any order), then the new one
    let mut expect: Vec<(u64, String)> = before.iter().filter_map(|(n, _)| ref_parse(n).map(|s| (s, n.clone()))).collect();
    expect.sort_by_key(|p| p.0);
    let got: Vec<String> = rec.iter().map(|e| e.to_delta().map(|d| d.key).unwrap_or_else(|_| "<undecodable>".into())).collect();
    let ok_len = got.len() == expect.len() + 1 && got.last().map(|s| s.as_str()) == Some("new");
    let ok_order = ok_len && (0..expect.len()).all(|i| ref_parse(&got[i]) == Some(expect[i].0)) && {
        let mut a: Vec<&String> = got[..expect.len()].iter().collect(); a.sort();
        let mut b: Vec<&String> = expect.iter().map(|p| &p.1).collect(); b.sort();
        a == b
    };
    if !ok_order {
        return Some(Found { input: show, observed: format!("recover_all_entries returned the entries of files {:?}", got), required: format!("the entries of {:?} (numeric sequence order) followed by \"new\"", expect.iter().map(|p| &p.1).collect::<Vec<_>>()) });
    }
    None
}

pub fn search(_pid: &str, _oid: &str, seed: u64) -> Option<Found> {
    let header = sample_header();
    let fixed: Vec<Vec<&str>> = vec![
        vec![],
        vec!["wal-00000001.wal", "wal-00000002.wal"],
        vec!["wal-00000001.wal", "wal-00000007.wal", "notes.txt", "wal-.wal", "wal-zz.wal", "wal-00000003.wal.tmp"],
        // beyond the 8-digit padding: lexicographic order differs from numeric order here
        vec!["wal-ffffffff.wal", "wal-100000000.wal", "wal-00000002.wal"],
        vec!["wal-fffffffffffffffe.wal"],
        // non-canonical spellings that parse
        vec!["wal-1.wal", "wal-+2.wal", "wal-0000000003.wal", "wal-000000AB.wal"],
        // one digit too many for u64: does not parse
        vec!["wal-10000000000000000.wal", "wal-00000004.wal"],
        // the largest sequence number
        vec!["wal-ffffffffffffffff.wal"],
        vec!["wal-00000001.wal", "wal-ffffffffffffffff.wal"],
    ];
    for f in &fixed {
        let names: Vec<String> = f.iter().map(|s| s.to_string()).collect();
        if let Some(x) = trial(&names, &header) { return Some(x); }
    }
    let mut rng = Rng::new(seed ^ 0x57a1);
    for _ in 0..300 {
        let k = rng.below(6) as usize;
        let mut names = Vec::new();
        for _ in 0..k {
            let n = match rng.below(8) {
                0 => format!("wal-{:08x}.wal", rng.below(40)),
                1 => format!("wal-{:08x}.wal", rng.next()),
                2 => format!("wal-{:x}.wal", rng.below(1 << 20)),
                3 => format!("wal-{:X}.wal", rng.next() >> rng.below(64)),
                4 => format!("wal-+{:x}.wal", rng.below(1000)),
                5 => format!("wal-{:08x}.wal", u64::MAX - rng.below(3)),
                6 => format!("wal-{:08x}.wa", rng.below(40)),
                _ => format!("x{:x}", rng.below(1000)),
            };
            names.push(n);
        }
        if let Some(x) = trial(&names, &header) { return Some(x); }
    }
    None
}
