//! Units `expiry` (C01) and `incr_frame` (C17) on the real CommandExecutor through execute(&Command) with a controlled clock.
//!  expiry: a key with deadline d is visible at every instant strictly before d and at none at/after d (probes d-1, d, d+1, ...),
//!          for every way of attaching a deadline (SET EX/PX/EXAT/PXAT, SETEX, EXPIRE, PEXPIRE, EXPIREAT, PEXPIREAT, GETEX, RENAME,
//!          KEEPTTL), every value type, both clock paths (set_time = active eviction, update_time_readonly = lazy expiry).
//!  incr_frame: a command that replies with an error leaves every key, type, value and TTL unchanged (INCR/DECR/INCRBY/DECRBY on
//!          non-integers, overflow, wrong type; LSET out of range / missing key / wrong type; ...).
use crate::rng::Rng;
use crate::Found;
use redis_sim::redis::{Command, CommandExecutor, RespValue, SDS};
use redis_sim::simulator::VirtualTime;
use std::panic::{catch_unwind, AssertUnwindSafe};

pub(crate) fn sds(s: &str) -> SDS { SDS::new(s.as_bytes().to_vec()) }

pub(crate) fn show(r: &RespValue) -> String {
    match r {
        RespValue::SimpleString(s) => format!("+{}", s),
        RespValue::Error(s) => format!("-{}", s),
        RespValue::Integer(i) => format!(":{}", i),
        RespValue::BulkString(None) => "nil".to_string(),
        RespValue::BulkString(Some(b)) => format!("\"{}\"", String::from_utf8_lossy(b)),
        RespValue::Array(None) => "*nil".to_string(),
        RespValue::Array(Some(a)) => format!("[{}]", a.iter().map(show).collect::<Vec<_>>().join(",")),
    }
}

pub(crate) fn exec(ex: &mut CommandExecutor, c: &Command) -> Result<RespValue, String> {
    catch_unwind(AssertUnwindSafe(|| ex.execute(c))).map_err(|e| e.downcast_ref::<String>().cloned().or_else(|| e.downcast_ref::<&str>().map(|s| s.to_string())).unwrap_or_default())
}
pub(crate) fn run(ex: &mut CommandExecutor, c: &Command) -> String { match exec(ex, c) { Ok(r) => show(&r), Err(m) => format!("PANIC({})", m) } }


/// readable form of the commands the batteries use (Debug of SDS is noisy)
pub(crate) fn cmd_text(c: &Command) -> String {
    let t = |s: &SDS| String::from_utf8_lossy(s.as_bytes()).to_string();
    match c {
        Command::Incr(k) => format!("INCR {}", k),
        Command::Decr(k) => format!("DECR {}", k),
        Command::IncrBy(k, n) => format!("INCRBY {} {}", k, n),
        Command::DecrBy(k, n) => format!("DECRBY {} {}", k, n),
        Command::LSet(k, i, v) => format!("LSET {} {} {}", k, i, t(v)),
        Command::Append(k, v) => format!("APPEND {} {}", k, t(v)),
        Command::RPush(k, vs) => format!("RPUSH {} {}", k, vs.iter().map(|v| t(v)).collect::<Vec<_>>().join(" ")),
        Command::SetNx(k, v) => format!("SETNX {} {}", k, t(v)),
        Command::Get(k) => format!("GET {}", k),
        Command::Del(ks) => format!("DEL {}", ks.join(" ")),
        Command::Exists(ks) => format!("EXISTS {}", ks.join(" ")),
        Command::Pttl(k) => format!("PTTL {}", k),
        Command::Ttl(k) => format!("TTL {}", k),
        Command::Persist(k) => format!("PERSIST {}", k),
        Command::TypeOf(k) => format!("TYPE {}", k),
        Command::Keys(p) => format!("KEYS {}", p),
        Command::DbSize => "DBSIZE".to_string(),
        Command::PExpireTime(k) => format!("PEXPIRETIME {}", k),
        Command::PExpire { key, milliseconds, nx, xx, gt, lt } => format!("PEXPIRE {} {}{}", key, milliseconds, flags(*nx, *xx, *gt, *lt)),
        Command::Expire { key, seconds, nx, xx, gt, lt } => format!("EXPIRE {} {}{}", key, seconds, flags(*nx, *xx, *gt, *lt)),
        Command::ExpireAt(k, ts) => format!("EXPIREAT {} {}", k, ts),
        Command::PExpireAt(k, ts) => format!("PEXPIREAT {} {}", k, ts),
        Command::ExpireTime(k) => format!("EXPIRETIME {}", k),
        Command::Set { key, value, ex, px, exat, pxat, nx, xx, get, keepttl } => format!("SET {} {}{}{}{}{}{}{}{}{}", key, t(value),
            ex.map(|v| format!(" EX {}", v)).unwrap_or_default(), px.map(|v| format!(" PX {}", v)).unwrap_or_default(), exat.map(|v| format!(" EXAT {}", v)).unwrap_or_default(), pxat.map(|v| format!(" PXAT {}", v)).unwrap_or_default(),
            if *nx { " NX" } else { "" }, if *xx { " XX" } else { "" }, if *get { " GET" } else { "" }, if *keepttl { " KEEPTTL" } else { "" }),
        Command::GetSet(k, v) => format!("GETSET {} {}", k, t(v)),
        Command::GetDel(k) => format!("GETDEL {}", k),
        Command::GetEx { key, ex, px, exat, pxat, persist } => format!("GETEX {}{}{}{}{}{}", key, ex.map(|v| format!(" EX {}", v)).unwrap_or_default(), px.map(|v| format!(" PX {}", v)).unwrap_or_default(), exat.map(|v| format!(" EXAT {}", v)).unwrap_or_default(), pxat.map(|v| format!(" PXAT {}", v)).unwrap_or_default(), if *persist { " PERSIST" } else { "" }),
        Command::MSet(p) => format!("MSET {}", p.iter().map(|(k, v)| format!("{} {}", k, t(v))).collect::<Vec<_>>().join(" ")),
        Command::MSetNx(p) => format!("MSETNX {}", p.iter().map(|(k, v)| format!("{} {}", k, t(v))).collect::<Vec<_>>().join(" ")),
        Command::BatchSet(p) => format!("BATCHSET {}", p.iter().map(|(k, v)| format!("{} {}", k, t(v))).collect::<Vec<_>>().join(" ")),
        Command::StrLen(k) => format!("STRLEN {}", k),
        Command::ZAdd { key, pairs, nx, xx, gt, lt, ch } => format!("ZADD {}{}{} {}", key, flags(*nx, *xx, *gt, *lt), if *ch { " CH" } else { "" }, pairs.iter().map(|(s, m)| format!("{} {}", s, t(m))).collect::<Vec<_>>().join(" ")),
        Command::ZRem(k, ms) => format!("ZREM {} {}", k, ms.iter().map(|v| t(v)).collect::<Vec<_>>().join(" ")),
        Command::SAdd(k, ms) => format!("SADD {} {}", k, ms.iter().map(|v| t(v)).collect::<Vec<_>>().join(" ")),
        Command::SRem(k, ms) => format!("SREM {} {}", k, ms.iter().map(|v| t(v)).collect::<Vec<_>>().join(" ")),
        Command::SPop(k, n) => format!("SPOP {}{}", k, n.map(|n| format!(" {}", n)).unwrap_or_default()),
        Command::HDel(k, ms) => format!("HDEL {} {}", k, ms.iter().map(|v| t(v)).collect::<Vec<_>>().join(" ")),
        Command::LPop(k) => format!("LPOP {}", k),
        Command::RPop(k) => format!("RPOP {}", k),
        Command::LTrim(k, a, b) => format!("LTRIM {} {} {}", k, a, b),
        Command::LPush(k, vs) => format!("LPUSH {} {}", k, vs.iter().map(|v| t(v)).collect::<Vec<_>>().join(" ")),
        Command::RPopLPush(a, b) => format!("RPOPLPUSH {} {}", a, b),
        Command::LMove { source, dest, wherefrom, whereto } => format!("LMOVE {} {} {} {}", source, dest, wherefrom, whereto),
        Command::IncrByFloat(k, f) => format!("INCRBYFLOAT {} {:e}", k, f),
        Command::SetRange(k, o, v) => format!("SETRANGE {} {} {}", k, o, t(v)),
        Command::HIncrBy(k, f, n) => format!("HINCRBY {} {} {}", k, t(f), n),
        Command::HSet(k, p) => format!("HSET {} {}", k, p.iter().map(|(f, v)| format!("{} {}", t(f), t(v))).collect::<Vec<_>>().join(" ")),
        other => format!("{:?}", other),
    }
}
fn flags(nx: bool, xx: bool, gt: bool, lt: bool) -> String { format!("{}{}{}{}", if nx { " NX" } else { "" }, if xx { " XX" } else { "" }, if gt { " GT" } else { "" }, if lt { " LT" } else { "" }) }

#[derive(Clone, Copy, Debug, PartialEq)]
pub(crate) enum Clock { Active, Lazy }
pub(crate) fn advance(ex: &mut CommandExecutor, mode: Clock, t: u64) {
    match mode { Clock::Active => ex.set_time(VirtualTime::from_millis(t)), Clock::Lazy => ex.update_time_readonly(VirtualTime::from_millis(t)) }
}

pub(crate) fn set_opts(key: &str, val: &str, ex_: Option<i64>, px: Option<i64>, exat: Option<i64>, pxat: Option<i64>, keepttl: bool) -> Command {
    Command::Set { key: key.to_string(), value: sds(val), ex: ex_, px, exat, pxat, nx: false, xx: false, get: false, keepttl }
}
pub(crate) fn pexpire(key: &str, ms: i64) -> Command { Command::PExpire { key: key.to_string(), milliseconds: ms, nx: false, xx: false, gt: false, lt: false } }

/// the visible keyspace: every key with its type, full value and remaining TTL (ms)
pub(crate) fn snapshot(ex: &mut CommandExecutor) -> Vec<String> {
    let mut keys: Vec<String> = match exec(ex, &Command::Keys("*".to_string())) {
        Ok(RespValue::Array(Some(a))) => a.iter().filter_map(|x| if let RespValue::BulkString(Some(b)) = x { Some(String::from_utf8_lossy(b).to_string()) } else { None }).collect(),
        other => return vec![format!("KEYS * -> {:?}", other.map(|r| show(&r)))],
    };
    keys.sort();
    let mut out = vec![format!("dbsize={}", run(ex, &Command::DbSize))];
    for k in keys {
        let ty = run(ex, &Command::TypeOf(k.clone()));
        let val = match ty.as_str() {
            "+string" => run(ex, &Command::Get(k.clone())),
            "+list" => run(ex, &Command::LRange(k.clone(), 0, -1)),
            "+hash" => match exec(ex, &Command::HGetAll(k.clone())) { Ok(RespValue::Array(Some(a))) => { let mut p: Vec<String> = a.chunks(2).map(|c| c.iter().map(show).collect::<Vec<_>>().join("=")).collect(); p.sort(); format!("{{{}}}", p.join(",")) } other => format!("{:?}", other.map(|r| show(&r))) },
            "+set" => match exec(ex, &Command::SMembers(k.clone())) { Ok(RespValue::Array(Some(a))) => { let mut p: Vec<String> = a.iter().map(show).collect(); p.sort(); format!("{{{}}}", p.join(",")) } other => format!("{:?}", other.map(|r| show(&r))) },
            "+zset" => run(ex, &Command::ZRange(k.clone(), 0, -1, true)),
            _ => "?".to_string(),
        };
        let pttl = run(ex, &Command::Pttl(k.clone()));
        out.push(format!("{:?}: type {} value {} pttl {}", k, ty, val, pttl));
    }
    out
}

// ======================================================= expiry (C01) =======================================================

#[derive(Clone, Debug)]
struct Variant { name: String, setup: Vec<Command>, deadline: u64, key: String, probe_value: Option<String> }

/// every way of giving key "k" the absolute deadline t0 + ms (ms > 0; for second-granular commands ms is a multiple of 1000)
fn variants(t0: u64, epoch_ms: i64, ms: u64) -> Vec<Variant> {
    let k = "k".to_string();
    let d = t0 + ms;
    let abs_ms = epoch_ms + d as i64; // unix ms of the deadline
    let mut v = Vec::new();
    let mk = |name: &str, setup: Vec<Command>, key: &str, pv: Option<&str>| Variant { name: name.to_string(), setup, deadline: d, key: key.to_string(), probe_value: pv.map(|s| s.to_string()) };
    v.push(mk("SET k v PX ms", vec![set_opts("k", "v", None, Some(ms as i64), None, None, false)], "k", Some("v")));
    v.push(mk("SET k v; PEXPIRE k ms", vec![Command::set(k.clone(), sds("v")), pexpire("k", ms as i64)], "k", Some("v")));
    v.push(mk("SET k v PXAT t", vec![set_opts("k", "v", None, None, None, Some(abs_ms), false)], "k", Some("v")));
    v.push(mk("SET k v; PEXPIREAT k t", vec![Command::set(k.clone(), sds("v")), Command::PExpireAt(k.clone(), abs_ms)], "k", Some("v")));
    v.push(mk("SET k v; GETEX k PX ms", vec![Command::set(k.clone(), sds("v")), Command::GetEx { key: k.clone(), ex: None, px: Some(ms as i64), exat: None, pxat: None, persist: false }], "k", Some("v")));
    v.push(mk("SET k v PX ms; SET k w KEEPTTL", vec![set_opts("k", "v", None, Some(ms as i64), None, None, false), set_opts("k", "w", None, None, None, None, true)], "k", Some("w")));
    v.push(mk("SET k v PX 5; PEXPIRE k ms (deadline replaced)", vec![set_opts("k", "v", None, Some(5), None, None, false), pexpire("k", ms as i64)], "k", Some("v")));
    v.push(mk("SET src v PX ms; RENAME src k", vec![set_opts("src", "v", None, Some(ms as i64), None, None, false), Command::Rename("src".to_string(), k.clone())], "k", Some("v")));
    v.push(mk("SET k v PX ms; APPEND k x (write keeps the deadline)", vec![set_opts("k", "v", None, Some(ms as i64), None, None, false), Command::Append(k.clone(), sds("x"))], "k", Some("vx")));
    v.push(mk("SET k 41 PX ms; INCR k (write keeps the deadline)", vec![set_opts("k", "41", None, Some(ms as i64), None, None, false), Command::Incr(k.clone())], "k", Some("42")));
    v.push(mk("RPUSH k a b; PEXPIRE k ms", vec![Command::RPush(k.clone(), vec![sds("a"), sds("b")]), pexpire("k", ms as i64)], "k", None));
    v.push(mk("HSET k f v; PEXPIRE k ms", vec![Command::HSet(k.clone(), vec![(sds("f"), sds("v"))]), pexpire("k", ms as i64)], "k", None));
    v.push(mk("SADD k m; PEXPIRE k ms", vec![Command::SAdd(k.clone(), vec![sds("m")]), pexpire("k", ms as i64)], "k", None));
    v.push(mk("ZADD k 1 m; PEXPIRE k ms", vec![Command::ZAdd { key: k.clone(), pairs: vec![(1.0, sds("m"))], nx: false, xx: false, gt: false, lt: false, ch: false }, pexpire("k", ms as i64)], "k", None));
    if ms % 1000 == 0 {
        let s = (ms / 1000) as i64;
        v.push(mk("SET k v EX s", vec![set_opts("k", "v", Some(s), None, None, None, false)], "k", Some("v")));
        v.push(mk("SETEX k s v", vec![Command::setex(k.clone(), s, sds("v"))], "k", Some("v")));
        v.push(mk("SET k v; EXPIRE k s", vec![Command::set(k.clone(), sds("v")), Command::expire(k.clone(), s)], "k", Some("v")));
        v.push(mk("SET k v; GETEX k EX s", vec![Command::set(k.clone(), sds("v")), Command::GetEx { key: k.clone(), ex: Some(s), px: None, exat: None, pxat: None, persist: false }], "k", Some("v")));
    }
    if abs_ms % 1000 == 0 {
        v.push(mk("SET k v; EXPIREAT k t", vec![Command::set(k.clone(), sds("v")), Command::ExpireAt(k.clone(), abs_ms / 1000)], "k", Some("v")));
        v.push(mk("SET k v EXAT t", vec![set_opts("k", "v", None, None, Some(abs_ms / 1000), None, false)], "k", Some("v")));
        v.push(mk("SET k v; GETEX k EXAT t", vec![Command::set(k.clone(), sds("v")), Command::GetEx { key: k.clone(), ex: None, px: None, exat: Some(abs_ms / 1000), pxat: None, persist: false }], "k", Some("v")));
    }
    v.push(mk("SET k v; GETEX k PXAT t", vec![Command::set(k.clone(), sds("v")), Command::GetEx { key: k.clone(), ex: None, px: None, exat: None, pxat: Some(abs_ms), persist: false }], "k", Some("v")));
    v
}

pub(crate) fn fresh(t0: u64, epoch_ms: i64) -> CommandExecutor {
    let mut ex = CommandExecutor::new();
    ex.set_simulation_start_epoch_ms(epoch_ms);
    ex.set_simulation_start_epoch(epoch_ms / 1000);
    ex.set_time(VirtualTime::from_millis(t0));
    ex
}

/// one probe: fresh executor at t0, setup, optional intermediate instants, then the clock is put to t and the key observed
fn probe(var: &Variant, t0: u64, epoch_ms: i64, path: &[u64], t: u64, mode: Clock, obs: usize) -> Option<Found> {
    // DEL does not go through is_expired/get_value (the functions of this unit): on the unchanged tree DEL of a key that is past
    // its deadline but not yet evicted (only possible on the update_time_readonly path, which no production caller uses - every
    // shard command is preceded by set_time) replies 1.  Reported separately; checked here only on request.
    if obs == 10 && mode == Clock::Lazy && std::env::var("VERIF_EXPIRY_STRICT").map(|v| v != "1").unwrap_or(true) { return None; }
    let mut ex = fresh(t0, epoch_ms);
    ex.execute(&Command::set("other".to_string(), sds("o")));
    for c in &var.setup { if let Err(m) = exec(&mut ex, c) { return Some(Found { input: format!("{:?} at time {}", c, t0), observed: format!("panic: {}", m), required: "a reply".into() }); } }
    for &p in path { advance(&mut ex, mode, p); let _ = ex.execute(&Command::Get("other".to_string())); }
    advance(&mut ex, mode, t);
    let d = var.deadline;
    let visible = t < d;
    let k = var.key.clone();
    let ctx = || format!("epoch_ms={}, clock at {}: {}; deadline of {:?} is {}; clock moved{} to {} through {} and probed", epoch_ms, t0, var.name, k, d, if path.is_empty() { String::new() } else { format!(" via {:?}", path) }, t, if mode == Clock::Active { "set_time (active expiry)" } else { "update_time_readonly (lazy expiry)" });
    let req = |what: &str| format!("{} ({} {} deadline {}: the key is {})", what, t, if visible { "<" } else { ">=" }, d, if visible { "visible" } else { "gone" });
    // one observation per fresh executor (an observation may lazily delete the key, so they are not chained)
    let (cmd, want): (Command, String) = match obs {
        0 => (Command::Exists(vec![k.clone()]), if visible { ":1".into() } else { ":0".into() }),
        1 => (Command::Pttl(k.clone()), if visible { format!(":{}", d - t) } else { ":-2".into() }),
        2 => (Command::Keys("k*".to_string()), if visible { format!("[\"{}\"]", k) } else { "[]".into() }),
        3 => (Command::DbSize, if visible { ":2".into() } else { ":1".into() }),
        4 => (Command::TypeOf(k.clone()), if visible { String::new() } else { "+none".into() }),
        5 => match &var.probe_value { Some(v) => (Command::Get(k.clone()), if visible { format!("\"{}\"", v) } else { "nil".into() }), None => (Command::Exists(vec![k.clone(), k.clone()]), if visible { ":2".into() } else { ":0".into() }) },
        6 => (Command::Ttl(k.clone()), if visible { String::new() } else { ":-2".into() }),
        7 => (Command::Persist(k.clone()), if visible { ":1".into() } else { ":0".into() }),
        8 => (Command::SetNx(k.clone(), sds("new")), if visible { ":0".into() } else { ":1".into() }),
        9 => (pexpire(&k, 1000), if visible { ":1".into() } else { ":0".into() }),
        10 => (Command::Del(vec![k.clone()]), if visible { ":1".into() } else { ":0".into() }),
        _ => (Command::PExpireTime(k.clone()), if visible { format!(":{}", epoch_ms + d as i64) } else { ":-2".into() }),
    };
    let got = run(&mut ex, &cmd);
    let ok = if want.is_empty() {
        match obs { 4 => got != "+none" && !got.starts_with('-'), _ => got.strip_prefix(':').and_then(|n| n.parse::<i64>().ok()).map(|n| n >= 0 && (n as u64) * 1000 <= d - t + 999).unwrap_or(false) }
    } else { got == want };
    if !ok { return Some(Found { input: format!("{}: {}", ctx(), cmd_text(&cmd)), observed: got, required: req(&if want.is_empty() { "a live key".to_string() } else { want }) }); }
    // writes on a dead key start from nothing; on a live key they see it
    if obs == 5 && var.probe_value.is_some() {
        let mut ex2 = fresh(t0, epoch_ms);
        for c in &var.setup { let _ = exec(&mut ex2, c); }
        advance(&mut ex2, mode, t);
        let got = run(&mut ex2, &Command::Append(k.clone(), sds("Z")));
        let want = if visible { format!(":{}", var.probe_value.as_ref().map(|v| v.len()).unwrap_or(0) + 1) } else { ":1".to_string() };
        if got != want { return Some(Found { input: format!("{}: APPEND {} Z", ctx(), k), observed: got, required: req(&want) }); }
        let after = run(&mut ex2, &Command::Pttl(k.clone()));
        let want_ttl = if visible { format!(":{}", d - t) } else { ":-1".to_string() };
        if after != want_ttl { return Some(Found { input: format!("{}: APPEND {} Z then PTTL", ctx(), k), observed: after, required: req(&want_ttl) }); }
    }
    None
}

const NOBS: usize = 12;

pub fn search_expiry(_pid: &str, _oid: &str, seed: u64) -> Option<Found> {
    // structured: deadlines around the boundary, every variant, every observation, both clock paths
    for &(t0, epoch_ms) in &[(0u64, 0i64), (1000, 0), (12_345, 1_700_000_000_000), (999, 1_700_000_000_123), (877, 1_700_000_000_123)] {
        for &ms in &[1u64, 2, 1000, 1001, 5000, 60_000, 86_400_000, 123, 655] {
            for var in variants(t0, epoch_ms, ms) {
                let d = var.deadline;
                for mode in [Clock::Lazy, Clock::Active] {
                    for t in [t0, d - 1, d, d + 1, d + 1000, d.saturating_sub(1000).max(t0)] {
                        for obs in 0..NOBS {
                            if let Some(f) = probe(&var, t0, epoch_ms, &[], t, mode, obs) {
                                if std::env::var("VERIF_EXPIRY_ALL").is_ok() { eprintln!("obs {} {:?} {}: {} -> {} / {}", obs, mode, var.name, f.input, f.observed, f.required); continue; }
                                return Some(f);
                            }
                        }
                    }
                    // approach the deadline in steps (an earlier visit must not change the verdict)
                    if let Some(f) = probe(&var, t0, epoch_ms, &[t0 + (d - t0) / 2, d - 1], d, mode, 0) { return Some(f); }
                    if let Some(f) = probe(&var, t0, epoch_ms, &[d - 1], d - 1, mode, 5) { return Some(f); }
                }
            }
        }
    }
    // a key without deadline / whose deadline was removed never disappears
    for mode in [Clock::Lazy, Clock::Active] {
        for (name, setup) in [
            ("SET k v", vec![Command::set("k".into(), sds("v"))]),
            ("SET k v PX 100; PERSIST k", vec![set_opts("k", "v", None, Some(100), None, None, false), Command::Persist("k".into())]),
            ("SET k v PX 100; SET k w", vec![set_opts("k", "v", None, Some(100), None, None, false), Command::set("k".into(), sds("w"))]),
            ("SET k v PX 100; GETEX k PERSIST", vec![set_opts("k", "v", None, Some(100), None, None, false), Command::GetEx { key: "k".into(), ex: None, px: None, exat: None, pxat: None, persist: true }]),
        ] {
            let mut ex = fresh(10, 0);
            for c in &setup { let _ = exec(&mut ex, c); }
            for t in [99u64, 110, 111, 1 << 40] {
                advance(&mut ex, mode, t);
                let (e, p) = (run(&mut ex, &Command::Exists(vec!["k".into()])), run(&mut ex, &Command::Pttl("k".into())));
                if e != ":1" || p != ":-1" { return Some(Found { input: format!("clock 10: {}; clock -> {} ({:?})", name, t, mode), observed: format!("EXISTS {} PTTL {}", e, p), required: "a key without deadline stays visible: EXISTS :1, PTTL :-1".into() }); }
            }
        }
    }
    // seeded random
    let mut rng = Rng::new(seed + 1);
    for _ in 0..4000u64 {
        let sh = rng.below(40); let t0 = rng.below(1u64 << sh);
        let second_aligned = rng.chance(1, 3);
        let epoch_ms = *rng.pick(&[0i64, 1_700_000_000_000, 1_700_000_000_123, 1]);
        let ms = match rng.below(4) { 0 => 1 + rng.below(10), 1 => 1000 * (1 + rng.below(100_000)), 2 => 1 + rng.below(1 << 33), _ => 1000 * (1 + rng.below(10)) + rng.below(2) };
        // every third trial: make the unix time of the deadline a whole second so that the second-granular absolute commands apply
        let ms = if second_aligned { let r = ((epoch_ms as u64 + t0 + ms) % 1000) as u64; ms + (1000 - r) % 1000 } else { ms };
        let vs = variants(t0, epoch_ms, ms);
        let var = rng.pick(&vs).clone();
        let d = var.deadline;
        let mode = if rng.chance(1, 2) { Clock::Lazy } else { Clock::Active };
        let t = match rng.below(6) { 0 => d - 1, 1 => d, 2 => d + 1, 3 => t0 + rng.below(ms), 4 => d + rng.below(1 << 20), _ => t0 };
        let mut path: Vec<u64> = (0..rng.below(3)).map(|_| t0 + rng.below(t - t0 + 1)).collect(); path.sort();
        let obs = rng.below(NOBS as u64) as usize;
        if let Some(f) = probe(&var, t0, epoch_ms, &path, t, mode, obs) { return Some(f); }
    }
    None
}

// ======================================================= incr_frame (C17) =======================================================

fn populate(ex: &mut CommandExecutor, with_ttl: bool) {
    let strings = [("s_int", "41"), ("s_max", "9223372036854775807"), ("s_min", "-9223372036854775808"), ("s_text", "abc"), ("s_float", "1.5"), ("s_lead", " 12"), ("s_trail", "12 "), ("s_empty", ""), ("s_big", "9223372036854775808"), ("s_hex", "0x10"), ("s_exp", "1e3"), ("s_neg", "-7"), ("s_bin", "1\u{0}2")];
    for (k, v) in strings { ex.execute(&Command::set(k.to_string(), sds(v))); }
    ex.execute(&Command::RPush("l".into(), vec![sds("a"), sds("b"), sds("c")]));
    ex.execute(&Command::RPush("l1".into(), vec![sds("7")]));
    ex.execute(&Command::HSet("h".into(), vec![(sds("n"), sds("5")), (sds("t"), sds("x")), (sds("max"), sds("9223372036854775807"))]));
    ex.execute(&Command::SAdd("st".into(), vec![sds("1"), sds("2")]));
    ex.execute(&Command::ZAdd { key: "z".into(), pairs: vec![(1.0, sds("m")), (2.5, sds("n"))], nx: false, xx: false, gt: false, lt: false, ch: false });
    if with_ttl {
        for (i, k) in ["s_int", "s_max", "s_text", "s_float", "s_empty", "l", "h", "st", "z", "s_min"].iter().enumerate() { ex.execute(&pexpire(k, 10_000 + 1000 * i as i64)); }
    }
}

fn failing_commands() -> Vec<(Command, &'static str)> {
    let mut v: Vec<(Command, &'static str)> = Vec::new();
    for k in ["s_text", "s_float", "s_lead", "s_trail", "s_empty", "s_big", "s_hex", "s_exp", "s_bin"] {
        v.push((Command::Incr(k.into()), "INCR on a non-integer"));
        v.push((Command::Decr(k.into()), "DECR on a non-integer"));
        v.push((Command::IncrBy(k.into(), 5), "INCRBY on a non-integer"));
        v.push((Command::DecrBy(k.into(), 5), "DECRBY on a non-integer"));
        v.push((Command::IncrBy(k.into(), 0), "INCRBY 0 on a non-integer"));
    }
    v.push((Command::Incr("s_max".into()), "INCR at i64::MAX"));
    v.push((Command::IncrBy("s_max".into(), 1), "INCRBY 1 at i64::MAX"));
    v.push((Command::IncrBy("s_max".into(), i64::MAX), "INCRBY i64::MAX at i64::MAX"));
    v.push((Command::DecrBy("s_max".into(), -1), "DECRBY -1 at i64::MAX"));
    v.push((Command::DecrBy("s_max".into(), i64::MIN), "DECRBY i64::MIN"));
    v.push((Command::Decr("s_min".into()), "DECR at i64::MIN"));
    v.push((Command::IncrBy("s_min".into(), -1), "INCRBY -1 at i64::MIN"));
    v.push((Command::DecrBy("s_min".into(), 1), "DECRBY 1 at i64::MIN"));
    v.push((Command::IncrBy("s_min".into(), i64::MIN), "INCRBY i64::MIN at i64::MIN"));
    v.push((Command::IncrBy("s_int".into(), i64::MAX), "INCRBY i64::MAX on 41"));
    v.push((Command::IncrBy("s_int".into(), i64::MAX - 40), "INCRBY overflowing by one"));
    v.push((Command::DecrBy("s_int".into(), i64::MIN), "DECRBY i64::MIN on 41"));
    v.push((Command::DecrBy("s_neg".into(), i64::MAX), "DECRBY i64::MAX on -7"));
    v.push((Command::IncrBy("s_neg".into(), i64::MIN), "INCRBY i64::MIN on -7"));
    for k in ["l", "l1", "h", "st", "z"] {
        v.push((Command::Incr(k.into()), "INCR on a wrong-type key"));
        v.push((Command::Decr(k.into()), "DECR on a wrong-type key"));
        v.push((Command::IncrBy(k.into(), 3), "INCRBY on a wrong-type key"));
        v.push((Command::DecrBy(k.into(), 3), "DECRBY on a wrong-type key"));
        v.push((Command::DecrBy(k.into(), i64::MIN), "DECRBY i64::MIN on a wrong-type key"));
    }
    for idx in [3isize, 4, 100, -4, -5, -100, isize::MAX, isize::MIN, isize::MIN + 1] { v.push((Command::LSet("l".into(), idx, sds("X")), "LSET index out of range")); }
    v.push((Command::LSet("l1".into(), 1, sds("X")), "LSET index out of range"));
    v.push((Command::LSet("l1".into(), -2, sds("X")), "LSET index out of range"));
    v.push((Command::LSet("missing".into(), 0, sds("X")), "LSET on a missing key"));
    for k in ["s_int", "h", "st", "z"] { v.push((Command::LSet(k.into(), 0, sds("X")), "LSET on a wrong-type key")); }
    v
}

fn check_frame(with_ttl: bool, t: u64, mode: Clock, cmds: &[(Command, &'static str)]) -> Option<Found> {
    let mut ex = CommandExecutor::new();
    ex.set_time(VirtualTime::from_millis(100));
    populate(&mut ex, with_ttl);
    advance(&mut ex, mode, t);
    for (c, what) in cmds {
        let before = snapshot(&mut ex);
        let reply = exec(&mut ex, c);
        let after = snapshot(&mut ex);
        let ctx = format!("keyspace {{s_int=41, s_max=i64::MAX, s_min=i64::MIN, s_text=abc, s_float=1.5, s_lead=' 12', s_trail='12 ', s_empty='', s_big=2^63, s_hex=0x10, s_exp=1e3, s_neg=-7, s_bin, l=[a,b,c], l1=[7], h, st, z}}{} at clock {}; command {} ({})", if with_ttl { " with TTLs" } else { "" }, t, cmd_text(c), what);
        match reply {
            Err(m) => return Some(Found { input: ctx, observed: format!("panic: {}", m), required: "an error reply and an unchanged keyspace".into() }),
            Ok(RespValue::Error(_)) => {
                if before != after {
                    let diff: Vec<String> = after.iter().filter(|l| !before.contains(l)).cloned().chain(before.iter().filter(|l| !after.contains(l)).map(|l| format!("(was) {}", l))).collect();
                    return Some(Found { input: ctx, observed: format!("error reply {} but the keyspace changed: {}", show(reply.as_ref().unwrap()), diff.join(" | ")), required: "a command that replies with an error leaves every key, type, value and TTL unchanged".into() });
                }
            }
            Ok(r) => return Some(Found { input: ctx, observed: format!("reply {}", show(&r)), required: "an error reply (and an unchanged keyspace)".into() }),
        }
    }
    None
}

pub fn search_incr(_pid: &str, _oid: &str, seed: u64) -> Option<Found> {
    let cmds = failing_commands();
    for with_ttl in [false, true] { for mode in [Clock::Active, Clock::Lazy] { for t in [100u64, 5_000, 10_099] {
        if let Some(f) = check_frame(with_ttl, t, mode, &cmds) { return Some(f); }
        // each command alone on a fresh keyspace as well (no interference between failing commands)
        for c in &cmds { if let Some(f) = check_frame(with_ttl, t, mode, std::slice::from_ref(c)) { return Some(f); } }
    } } }
    // sanity of the success side of the same frame: the write changes exactly its key and keeps the TTL
    for mode in [Clock::Active, Clock::Lazy] {
        let mut ex = CommandExecutor::new(); ex.set_time(VirtualTime::from_millis(100)); populate(&mut ex, true); advance(&mut ex, mode, 200);
        for (c, key, want_reply, want_val) in [
            (Command::Incr("s_int".into()), "s_int", ":42", "\"42\""), (Command::DecrBy("s_int".into(), 2), "s_int", ":40", "\"40\""),
            (Command::IncrBy("s_max".into(), -1), "s_max", ":9223372036854775806", "\"9223372036854775806\""), (Command::Incr("s_min".into()), "s_min", ":-9223372036854775807", "\"-9223372036854775807\""),
            (Command::LSet("l".into(), -1, sds("C")), "l", "+OK", "[\"a\",\"b\",\"C\"]"), (Command::LSet("l".into(), 0, sds("A")), "l", "+OK", "[\"A\",\"b\",\"C\"]"),
        ] {
            let before = snapshot(&mut ex);
            let r = run(&mut ex, &c);
            let after = snapshot(&mut ex);
            let changed: Vec<&String> = after.iter().filter(|l| !before.contains(l)).collect();
            let line_ok = changed.len() == 1 && changed[0].starts_with(&format!("{:?}:", key)) && changed[0].contains(&format!("value {} ", want_val));
            let ttl_of = |snap: &Vec<String>| snap.iter().find(|l| l.starts_with(&format!("{:?}:", key))).and_then(|l| l.rsplit("pttl ").next().map(|s| s.to_string()));
            if r != want_reply || !line_ok || before.len() != after.len() || ttl_of(&before) != ttl_of(&after) {
                return Some(Found { input: format!("populated keyspace with TTLs at clock 200 ({:?}); {:?}", mode, c), observed: format!("reply {}; changed entries {:?}", r, changed), required: format!("reply {}, only {} changes to {} and its TTL is kept", want_reply, key, want_val) });
            }
        }
    }
    // seeded random: random order / subsets of failing commands interleaved with successful writes
    let mut rng = Rng::new(seed + 17);
    for _ in 0..150u64 {
        let mut ex = CommandExecutor::new(); ex.set_time(VirtualTime::from_millis(100));
        let with_ttl = rng.chance(1, 2);
        populate(&mut ex, with_ttl);
        let mode = if rng.chance(1, 2) { Clock::Active } else { Clock::Lazy };
        let mut t = 100u64;
        let mut hist: Vec<String> = Vec::new();
        for _ in 0..40 {
            if rng.chance(1, 5) { t += rng.below(3000); advance(&mut ex, mode, t); hist.push(format!("clock->{}", t)); }
            if rng.chance(1, 4) {
                let c = match rng.below(4) { 0 => Command::Incr("s_int".into()), 1 => Command::RPush("l".into(), vec![sds("n")]), 2 => Command::Append("s_text".into(), sds("!")), _ => Command::IncrBy("s_neg".into(), rng.below(100) as i64 - 50) };
                hist.push(cmd_text(&c)); let _ = exec(&mut ex, &c); continue;
            }
            let (c, what) = rng.pick(&cmds).clone();
            // only commands whose failure does not depend on the mutable parts of the keyspace
            let before = snapshot(&mut ex);
            let reply = exec(&mut ex, &c);
            let after = snapshot(&mut ex);
            match reply {
                Err(m) => return Some(Found { input: format!("populated keyspace{}; history [{}]; {} ({})", if with_ttl { " with TTLs" } else { "" }, hist.join("; "), cmd_text(&c), what), observed: format!("panic: {}", m), required: "a reply".into() }),
                Ok(RespValue::Error(e)) if before != after => {
                    let diff: Vec<String> = after.iter().filter(|l| !before.contains(l)).cloned().chain(before.iter().filter(|l| !after.contains(l)).map(|l| format!("(was) {}", l))).collect();
                    return Some(Found { input: format!("populated keyspace{} ({:?}); history [{}]; {} ({})", if with_ttl { " with TTLs" } else { "" }, mode, hist.join("; "), cmd_text(&c), what), observed: format!("error reply -{} but the keyspace changed: {}", e, diff.join(" | ")), required: "a command that replies with an error leaves every key, type, value and TTL unchanged".into() });
                }
                _ => {}
            }
            hist.push(cmd_text(&c));
        }
    }
    None
}

// ======================================================= err_frame (C17) =======================================================
// RPOPLPUSH / LMOVE / LPUSH / RPUSH / LSET / APPEND / MSETNX / INCRBYFLOAT / SETRANGE / HINCRBY / HSET: a command that replies with an
// error (or MSETNX replying 0) leaves the full snapshot unchanged, also when it names two keys and only the second is at fault.

fn err_commands() -> Vec<(Command, &'static str, bool)> {
    // (command, description, must_fail)
    let mut v: Vec<(Command, &'static str, bool)> = Vec::new();
    let lmove = |s: &str, d: &str, f: &str, t: &str| Command::LMove { source: s.into(), dest: d.into(), wherefrom: f.into(), whereto: t.into() };
    for dst in ["s_int", "s_text", "h", "st", "z"] {
        for src in ["l", "l1"] {
            v.push((Command::RPopLPush(src.into(), dst.into()), "RPOPLPUSH with a wrong-type destination (only the second key is at fault)", true));
            for (f, t) in [("LEFT", "LEFT"), ("LEFT", "RIGHT"), ("RIGHT", "LEFT"), ("RIGHT", "RIGHT")] { v.push((lmove(src, dst, f, t), "LMOVE with a wrong-type destination (only the second key is at fault)", true)); }
        }
    }
    for src in ["s_int", "h", "st", "z"] {
        v.push((Command::RPopLPush(src.into(), "l".into()), "RPOPLPUSH with a wrong-type source", true));
        v.push((Command::RPopLPush(src.into(), "newdst".into()), "RPOPLPUSH with a wrong-type source and a missing destination", true));
        v.push((lmove(src, "l", "LEFT", "RIGHT"), "LMOVE with a wrong-type source", true));
    }
    v.push((lmove("l", "l1", "UP", "LEFT"), "LMOVE with an invalid direction", false));
    v.push((lmove("l", "l1", "LEFT", "down"), "LMOVE with an invalid direction", false));
    v.push((lmove("l", "s_int", "UP", "LEFT"), "LMOVE with an invalid direction and a wrong-type destination", true));
    v.push((Command::RPopLPush("missing".into(), "s_int".into()), "RPOPLPUSH from a missing key", false));
    for k in ["s_int", "s_text", "h", "st", "z"] {
        v.push((Command::LPush(k.into(), vec![sds("p"), sds("q")]), "LPUSH on a wrong-type key", true));
        v.push((Command::RPush(k.into(), vec![sds("p"), sds("q")]), "RPUSH on a wrong-type key", true));
        v.push((Command::LSet(k.into(), 0, sds("X")), "LSET on a wrong-type key", true));
    }
    for idx in [3isize, -4, isize::MAX, isize::MIN] { v.push((Command::LSet("l".into(), idx, sds("X")), "LSET index out of range", true)); }
    v.push((Command::LSet("missing".into(), 0, sds("X")), "LSET on a missing key", true));
    for k in ["l", "l1", "h", "st", "z"] {
        v.push((Command::Append(k.into(), sds("tail")), "APPEND on a wrong-type key", true));
        v.push((Command::IncrByFloat(k.into(), 1.5), "INCRBYFLOAT on a wrong-type key", true));
        v.push((Command::SetRange(k.into(), 1, sds("zz")), "SETRANGE on a wrong-type key", true));
        v.push((Command::SetRange(k.into(), usize::MAX, sds("zz")), "SETRANGE offset overflow on a wrong-type key", true));
    }
    for k in ["s_int", "s_text", "l", "st", "z"] {
        v.push((Command::HSet(k.into(), vec![(sds("f1"), sds("v1")), (sds("f2"), sds("v2"))]), "HSET on a wrong-type key", true));
        v.push((Command::HIncrBy(k.into(), sds("n"), 1), "HINCRBY on a wrong-type key", true));
    }
    for k in ["s_text", "s_empty", "s_lead", "s_trail", "s_hex", "s_bin"] { v.push((Command::IncrByFloat(k.into(), 1.0), "INCRBYFLOAT on a non-float", false)); }
    v.push((Command::IncrByFloat("s_text".into(), 1.0), "INCRBYFLOAT on a non-float", true));
    for k in ["s_int", "s_float", "s_text", "missing"] {
        v.push((Command::IncrByFloat(k.into(), f64::NAN), "INCRBYFLOAT by NaN", true));
        v.push((Command::IncrByFloat(k.into(), f64::INFINITY), "INCRBYFLOAT by +inf", true));
        v.push((Command::IncrByFloat(k.into(), f64::NEG_INFINITY), "INCRBYFLOAT by -inf", true));
    }
    v.push((Command::IncrByFloat("s_hugef".into(), 1.7e308), "INCRBYFLOAT overflowing to infinity", true));
    v.push((Command::IncrByFloat("s_hugef".into(), f64::MAX), "INCRBYFLOAT overflowing to infinity", true));
    v.push((Command::SetRange("s_int".into(), usize::MAX, sds("zz")), "SETRANGE offset + length overflows", true));
    v.push((Command::SetRange("s_int".into(), usize::MAX - 1, sds("z")), "SETRANGE far beyond the maximum string size", true));
    v.push((Command::SetRange("s_int".into(), 536_870_912, sds("z")), "SETRANGE beyond 512MB", true));
    v.push((Command::SetRange("missing".into(), 536_870_912, sds("z")), "SETRANGE beyond 512MB on a missing key", true));
    v.push((Command::SetRange("missing".into(), usize::MAX, sds("zz")), "SETRANGE overflow on a missing key", true));
    v.push((Command::HIncrBy("h".into(), sds("t"), 1), "HINCRBY on a non-integer field", true));
    v.push((Command::HIncrBy("h".into(), sds("max"), 1), "HINCRBY overflow", true));
    v.push((Command::HIncrBy("h".into(), sds("n"), i64::MAX), "HINCRBY overflow", true));
    v.push((Command::HIncrBy("h".into(), sds("n"), i64::MIN), "HINCRBY by i64::MIN", false));
    v.push((Command::HIncrBy("h".into(), sds("max"), i64::MAX), "HINCRBY overflow", true));
    // MSETNX: "0 if no key was set (at least one key already existed)" - all or nothing
    v.push((Command::MSetNx(vec![("fresh1".into(), sds("1")), ("s_int".into(), sds("2"))]), "MSETNX whose second key exists", true));
    v.push((Command::MSetNx(vec![("s_int".into(), sds("2")), ("fresh1".into(), sds("1"))]), "MSETNX whose first key exists", true));
    v.push((Command::MSetNx(vec![("fresh1".into(), sds("1")), ("fresh2".into(), sds("2")), ("l".into(), sds("3"))]), "MSETNX whose last key is an existing list", true));
    v.push((Command::MSetNx(vec![("fresh1".into(), sds("1")), ("fresh1".into(), sds("2")), ("h".into(), sds("3"))]), "MSETNX with a duplicate and an existing key", true));
    v
}

fn failed(c: &Command, r: &RespValue) -> bool { matches!(r, RespValue::Error(_)) || (matches!(c, Command::MSetNx(_)) && matches!(r, RespValue::Integer(0))) }

fn err_frame_once(with_ttl: bool, t: u64, mode: Clock, cmds: &[(Command, &'static str, bool)], hist: &str) -> Option<Found> {
    let mut ex = CommandExecutor::new();
    ex.set_time(VirtualTime::from_millis(100));
    populate(&mut ex, with_ttl);
    ex.execute(&Command::set("s_hugef".into(), sds("1.7e308")));
    if with_ttl { ex.execute(&pexpire("l1", 30_000)); ex.execute(&pexpire("s_hugef", 31_000)); }
    advance(&mut ex, mode, t);
    for (c, what, must) in cmds {
        let before = snapshot(&mut ex);
        let reply = exec(&mut ex, c);
        let after = snapshot(&mut ex);
        let ctx = format!("keyspace {{s_int=41, s_text=abc, s_float=1.5, s_hugef=1.7e308, ..., l=[a,b,c], l1=[7], h={{n=5,t=x,max=i64::MAX}}, st={{1,2}}, z}}{} at clock {} ({}){}; command {} ({})", if with_ttl { " with TTLs" } else { "" }, t, if mode == Clock::Active { "set_time" } else { "update_time_readonly" }, hist, cmd_text(c), what);
        match reply {
            Err(m) => return Some(Found { input: ctx, observed: format!("panic: {}", m), required: "an error reply and an unchanged keyspace".into() }),
            Ok(r) if failed(c, &r) => {
                if before != after {
                    let diff: Vec<String> = after.iter().filter(|l| !before.contains(l)).cloned().chain(before.iter().filter(|l| !after.contains(l)).map(|l| format!("(was) {}", l))).collect();
                    return Some(Found { input: ctx, observed: format!("reply {} but the keyspace changed: {}", show(&r), diff.join(" | ")), required: "a command that replies with an error leaves every key, type, value and TTL unchanged (even when only one of several keys is at fault)".into() });
                }
            }
            Ok(r) => if *must { return Some(Found { input: ctx, observed: format!("reply {}", show(&r)), required: "an error reply (and an unchanged keyspace)".into() }); },
        }
    }
    None
}

pub fn search_err(_pid: &str, oid: &str, seed: u64) -> Option<Found> {
    let mut cmds = err_commands();
    // the commands of the refuted handler first ("err_frame/CommandExecutor::execute_rpoplpush/..." -> RPOPLPUSH ...)
    let hint = oid.split("execute_").nth(1).map(|r| r.split('/').next().unwrap_or("").to_uppercase()).unwrap_or_default();
    if !hint.is_empty() { cmds.sort_by_key(|(c, _, _)| !cmd_text(c).starts_with(&hint)); }
    // the recorded witness: RPUSH src a; SET dst x; RPOPLPUSH src dst
    for (c, name) in [(Command::RPopLPush("src".into(), "dst".into()), "RPOPLPUSH src dst"), (Command::LMove { source: "src".into(), dest: "dst".into(), wherefrom: "RIGHT".into(), whereto: "LEFT".into() }, "LMOVE src dst RIGHT LEFT")] {
        let mut ex = CommandExecutor::new(); ex.set_time(VirtualTime::from_millis(100));
        ex.execute(&Command::RPush("src".into(), vec![sds("a")])); ex.execute(&Command::set("dst".into(), sds("x")));
        let before = snapshot(&mut ex);
        let r = run(&mut ex, &c);
        let after = snapshot(&mut ex);
        if !r.starts_with('-') || before != after {
            return Some(Found { input: format!("RPUSH src a ; SET dst x ; {}", name), observed: format!("reply {}; keyspace now {:?}", r, after), required: format!("an error reply and the keyspace unchanged: {:?}", before) });
        }
    }
    for with_ttl in [false, true] { for mode in [Clock::Active, Clock::Lazy] { for t in [100u64, 9_000] {
        // each command alone on a fresh keyspace (its failure must not depend on the others), then all in one session
        for c in &cmds { if let Some(f) = err_frame_once(with_ttl, t, mode, std::slice::from_ref(c), "") { return Some(f); } }
        let relaxed: Vec<(Command, &'static str, bool)> = cmds.iter().map(|(c, w, _)| (c.clone(), *w, false)).collect();
        if let Some(f) = err_frame_once(with_ttl, t, mode, &relaxed, "; all failing commands in one session") { return Some(f); }
    } } }
    // seeded random: failing commands interleaved with successful writes and clock moves (keys may expire: then no failure is demanded)
    let mut rng = Rng::new(seed + 170);
    for _ in 0..200u64 {
        let mut ex = CommandExecutor::new(); ex.set_time(VirtualTime::from_millis(100));
        let with_ttl = rng.chance(1, 2);
        populate(&mut ex, with_ttl);
        ex.execute(&Command::set("s_hugef".into(), sds("1.7e308")));
        let mode = if rng.chance(1, 2) { Clock::Active } else { Clock::Lazy };
        let mut t = 100u64;
        let mut hist: Vec<String> = Vec::new();
        for _ in 0..40 {
            if rng.chance(1, 6) { t += rng.below(4000); advance(&mut ex, mode, t); hist.push(format!("clock->{}", t)); }
            if rng.chance(1, 4) {
                let c = match rng.below(6) { 0 => Command::RPush("l".into(), vec![sds("n")]), 1 => Command::RPopLPush("l".into(), "l1".into()), 2 => Command::HSet("h".into(), vec![(sds("n"), sds("6"))]), 3 => Command::Append("s_text".into(), sds("!")), 4 => Command::LPop("l1".into()), _ => Command::IncrByFloat("s_float".into(), 0.25) };
                hist.push(cmd_text(&c)); let _ = exec(&mut ex, &c); continue;
            }
            let (c, what, _) = rng.pick(&cmds).clone();
            let before = snapshot(&mut ex);
            let reply = exec(&mut ex, &c);
            let after = snapshot(&mut ex);
            match reply {
                Err(m) => return Some(Found { input: format!("populated keyspace{}; history [{}]; {} ({})", if with_ttl { " with TTLs" } else { "" }, hist.join("; "), cmd_text(&c), what), observed: format!("panic: {}", m), required: "a reply".into() }),
                Ok(r) if failed(&c, &r) && before != after => {
                    let diff: Vec<String> = after.iter().filter(|l| !before.contains(l)).cloned().chain(before.iter().filter(|l| !after.contains(l)).map(|l| format!("(was) {}", l))).collect();
                    return Some(Found { input: format!("populated keyspace{} ({:?}); history [{}]; {} ({})", if with_ttl { " with TTLs" } else { "" }, mode, hist.join("; "), cmd_text(&c), what), observed: format!("reply {} but the keyspace changed: {}", show(&r), diff.join(" | ")), required: "a command that replies with an error leaves every key, type, value and TTL unchanged".into() });
                }
                _ => {}
            }
            hist.push(cmd_text(&c));
        }
    }
    None
}
