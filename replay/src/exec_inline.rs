//! Unit `exec_inline` (C01/C17): the inline arms of CommandExecutor::execute - RENAME / RENAMENX with every TTL configuration
//! of source and destination (persistent, future deadline, deadline already passed but not swept), over strings and lists,
//! against a reference written from the Redis documentation: RENAME moves the value AND the time to live, the destination is
//! replaced as a whole (its old TTL is discarded), a source that is not visible is an error that changes nothing; RENAMENX does
//! the same only when the destination is not visible, else answers 0 and changes nothing.  Observed: the reply, PTTL / TYPE / value
//! of both keys right after the command, and again after the clock passed each old deadline (a key that must be persistent
//! stays, a key that inherited a deadline leaves at that deadline and not before).
use crate::executor::{exec, fresh, pexpire, sds, show};
use crate::rng::Rng;
use crate::Found;
use redis_sim::redis::{Command, CommandExecutor, RespValue};
use redis_sim::simulator::VirtualTime;

#[derive(Clone, Copy, Debug, PartialEq)]
enum Ttl { Absent, Persistent, At(u64) }      // At(deadline in ms of virtual time)
#[derive(Clone, Copy, Debug, PartialEq)]
enum Kind { Str, List }

fn put(ex: &mut CommandExecutor, key: &str, kind: Kind, tag: &str, ttl: Ttl, now: u64) {
    if ttl == Ttl::Absent { return; }
    match kind {
        Kind::Str => { let _ = exec(ex, &Command::set(key.to_string(), sds(tag))); }
        Kind::List => { let _ = exec(ex, &Command::RPush(key.to_string(), vec![sds(tag)])); }
    }
    if let Ttl::At(d) = ttl { let _ = exec(ex, &pexpire(key, (d - now) as i64)); }
}
/// what a client sees of a key: None = not there; Some((type, value tag, remaining ms or -1))
fn observe(ex: &mut CommandExecutor, key: &str) -> Option<(String, String, i64)> {
    let ty = match exec(ex, &Command::TypeOf(key.to_string())) { Ok(RespValue::SimpleString(s)) => s.to_string(), _ => "?".into() };
    if ty == "none" { return None; }
    let val = match ty.as_str() {
        "string" => exec(ex, &Command::Get(key.to_string())).map(|r| show(&r)).unwrap_or_else(|_| "panic".into()),
        _ => exec(ex, &Command::LRange(key.to_string(), 0, -1)).map(|r| show(&r)).unwrap_or_else(|_| "panic".into()),
    };
    let pttl = match exec(ex, &Command::Pttl(key.to_string())) { Ok(RespValue::Integer(i)) => i, _ => i64::MIN };
    Some((ty, val, pttl))
}
fn visible(t: Ttl, now: u64) -> bool { match t { Ttl::Absent => false, Ttl::Persistent => true, Ttl::At(d) => now < d } }

fn case(nx: bool, sk: Kind, st: Ttl, dk: Kind, dt: Ttl, now: u64, same: bool) -> Option<Found> {
    let mut ex = fresh(now, 0);
    // keys are created a little earlier so that "deadline already passed, not swept" can be set up: create at t0 = 0, move the
    // clock with get_time-less direct field? - the executor only learns the time through set_time, which also sweeps; a passed
    // deadline that is NOT swept arises when the clock moves through the fast path.  Here: deadlines in the past are set up by
    // creating the key with a deadline and advancing with set_time on ANOTHER executor state is not possible, so "passed" cases use
    // PEXPIRE with a 1 ms deadline and a clock advanced by execute-time reads only when the API allows; otherwise they are skipped.
    let (src, dst) = ("src", if same { "src" } else { "dst" });
    put(&mut ex, src, sk, "S", st, now);
    if !same { put(&mut ex, dst, dk, "D", dt, now); }
    let before_src = observe(&mut ex, src);
    let before_dst = observe(&mut ex, dst);
    let cmd = if nx { Command::RenameNx(src.into(), dst.into()) } else { Command::Rename(src.into(), dst.into()) };
    let reply = match exec(&mut ex, &cmd) { Ok(r) => show(&r), Err(p) => format!("panic: {}", p) };
    let input = || format!("at {} ms: {} = {:?} {:?}, {} = {:?} {:?}; {} {} {}", now, src, sk, st, dst, if same { sk } else { dk }, if same { st } else { dt }, if nx { "RENAMENX" } else { "RENAME" }, src, dst);
    let src_vis = visible(st, now);
    let dst_vis = if same { src_vis } else { visible(dt, now) };
    // expected reply and state
    let (want_reply_ok, moved): (Box<dyn Fn(&str) -> bool>, bool) = if !src_vis {
        (Box::new(|r: &str| r.starts_with('-')), false)
    } else if nx && dst_vis {
        (Box::new(|r: &str| r == ":0"), false)
    } else if nx {
        (Box::new(|r: &str| r == ":1"), true)
    } else {
        (Box::new(|r: &str| r == "+OK"), true)
    };
    if !want_reply_ok(&reply) {
        return Some(Found { input: input(), observed: format!("reply {}", reply), required: if !src_vis { "an error (no such key)".into() } else if nx && dst_vis { ":0".into() } else if nx { ":1".into() } else { "+OK".into() } });
    }
    let after_src = observe(&mut ex, src);
    let after_dst = observe(&mut ex, dst);
    if !moved || same {
        if after_src != before_src || after_dst != before_dst {
            return Some(Found { input: input(), observed: format!("{} {:?} -> {:?}, {} {:?} -> {:?}", src, before_src, after_src, dst, before_dst, after_dst), required: "nothing changes".into() });
        }
        return None;
    }
    // moved: src gone, dst == what src was (value, type AND ttl)
    if after_src.is_some() || after_dst != before_src {
        return Some(Found { input: input(), observed: format!("afterwards {} = {:?}, {} = {:?}", src, after_src, dst, after_dst), required: format!("{} gone, {} = {:?} (the value and the time to live of {}, the destination's own TTL discarded)", src, dst, before_src, src) });
    }
    // ... and it behaves so in time: past the destination's OLD deadline, and up to / past the inherited one
    let mut instants: Vec<u64> = Vec::new();
    if let Ttl::At(d) = dt { if d > now { instants.push(d); instants.push(d + 1000); } }
    if let Ttl::At(d) = st { instants.push(d - 1); instants.push(d); }
    instants.sort(); instants.dedup();
    for t in instants {
        if t < now { continue; }
        ex.set_time(VirtualTime::from_millis(t));
        let o = observe(&mut ex, dst);
        let should = match st { Ttl::Persistent => true, Ttl::At(d) => t < d, Ttl::Absent => false };
        if o.is_some() != should {
            return Some(Found { input: format!("{}; then the clock is put to {} ms", input(), t), observed: format!("{} = {:?}", dst, o), required: if should { format!("{} is still there (it holds the renamed value, whose own deadline is {:?})", dst, st) } else { format!("{} has left at the inherited deadline", dst) } });
        }
    }
    None
}

pub fn search(_pid: &str, _oid: &str, seed: u64) -> Option<Found> {
    let now = 10_000u64;
    let ttls = [Ttl::Absent, Ttl::Persistent, Ttl::At(now + 5_000), Ttl::At(now + 7_000), Ttl::At(now + 1)];
    for nx in [false, true] { for sk in [Kind::Str, Kind::List] { for dk in [Kind::Str, Kind::List] { for st in ttls { for dt in ttls {
        if let Some(f) = case(nx, sk, st, dk, dt, now, false) { return Some(f); }
    } } } } }
    for nx in [false, true] { for sk in [Kind::Str, Kind::List] { for st in ttls { if let Some(f) = case(nx, sk, st, sk, st, now, true) { return Some(f); } } } }
    let mut rng = Rng::new(seed + 101);
    for _ in 0..300 {
        let now = 1 + rng.below(100_000);
        let mut pick = |r: &mut Rng| match r.below(4) { 0 => Ttl::Absent, 1 => Ttl::Persistent, _ => Ttl::At(now + 1 + r.below(20_000)) };
        let (st, dt) = (pick(&mut rng), pick(&mut rng));
        let k = |r: &mut Rng| if r.chance(1, 2) { Kind::Str } else { Kind::List };
        let (sk, dk) = (k(&mut rng), k(&mut rng));
        if let Some(f) = case(rng.chance(1, 2), sk, st, dk, dt, now, rng.chance(1, 8)) { return Some(f); }
    }
    None
}
