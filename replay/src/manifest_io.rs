//! Unit `manifest_io` (C12): the manifest file protocol ManifestManager::{save, load, load_or_create, exists, add_segment,
//! update} on the real code over an in-memory object store that can FAIL or DIE at every call index, with every outcome
//! the ObjectStore contract of the unit allows for the faulty call:
//!     put     not applied | applied but reported failed | a strict PREFIX of the data stored (torn write), then Err / death
//!     rename  not applied | applied but reported failed | destination replaced and the source still there, then Err / death
//!     delete  not applied | applied but reported failed;     get / exists / head / list: Err (kinds Other, TimedOut, PermissionDenied ..)
//! After every such point a FRESH ManifestManager on the bare store must find under manifest_key
//!   - a COMPLETE manifest equal to the old or the new one (exactly the new one when the operation reported Ok), or nothing
//!     at all if there was none before - never a parse error from a half-written object, never any other manifest;
//!   - load_or_create / exists agree with load; a retry after a failed (non-fatal) save succeeds and installs the new one;
//!   - every segment the loaded manifest lists is an object of the store with the recorded size (segment put, then add_segment).
//! And the read side: a get that fails for another reason than NotFound, or a manifest object that does not parse (every
//! strict prefix of a manifest, garbage), is an ERROR of load and of load_or_create - never a fresh empty manifest.
use crate::rng::Rng;
use crate::Found;
use redis_sim::streaming::{CheckpointInfo, InMemoryObjectStore, ListResult, Manifest, ManifestError, ManifestManager, ObjectMeta, ObjectStore, SegmentInfo};
use std::future::Future;
use std::io::{Error as IoError, ErrorKind, Result as IoResult};
use std::pin::Pin;
use std::sync::{Arc, Mutex};

const PREFIX: &str = "t";
const MKEY: &str = "t/manifest.json";

#[derive(Clone, Copy, PartialEq, Debug)]
enum Effect { NotApplied, Applied, Half } // Half: put = a strict prefix is stored; rename = destination replaced, source still there

#[derive(Clone, Copy, Debug)]
struct Fault { at: u64, effect: Effect, die: bool, kind: ErrorKind, torn: usize } // torn: selector of the prefix length

#[derive(Default)]
struct Script { calls: u64, fault: Option<Fault>, dead: bool, log: Vec<String> }

#[derive(Clone)]
struct FaultStore { inner: InMemoryObjectStore, script: Arc<Mutex<Script>> }

enum Verdict { Pass, Fail(Effect, ErrorKind, usize) }

impl FaultStore {
    fn new(inner: InMemoryObjectStore, fault: Option<Fault>) -> Self { FaultStore { inner, script: Arc::new(Mutex::new(Script { calls: 0, fault, dead: false, log: Vec::new() })) } }
    fn verdict(&self, what: String) -> Verdict {
        let mut s = self.script.lock().unwrap();
        let k = s.calls; s.calls += 1;
        if s.dead { s.log.push(format!("#{} {} -> (process dead)", k, what)); return Verdict::Fail(Effect::NotApplied, ErrorKind::Other, 0); }
        if let Some(f) = s.fault { if f.at == k {
            if f.die { s.dead = true; }
            s.log.push(format!("#{} {} -> {} ({})", k, what, if f.die { "process dies".to_string() } else { format!("Err({:?})", f.kind) }, match f.effect { Effect::NotApplied => "not applied", Effect::Applied => "applied", Effect::Half => "half done: torn put / destination replaced with the source left behind" }));
            return Verdict::Fail(f.effect, f.kind, f.torn);
        } }
        s.log.push(format!("#{} {}", k, what));
        Verdict::Pass
    }
    fn calls(&self) -> u64 { self.script.lock().unwrap().calls }
    fn dead(&self) -> bool { self.script.lock().unwrap().dead }
    fn log(&self) -> String { self.script.lock().unwrap().log.join(", ") }
}

fn injected(kind: ErrorKind) -> IoError { IoError::new(kind, "injected failure") }
fn torn_len(sel: usize, len: usize) -> usize { if len == 0 { 0 } else { match sel { 0 => 0, 1 => 1.min(len - 1), 2 => len / 2, 3 => len - 1, n => n % len } } }

impl ObjectStore for FaultStore {
    fn put<'a>(&'a self, key: &'a str, data: &'a [u8]) -> Pin<Box<dyn Future<Output = IoResult<()>> + Send + 'a>> {
        Box::pin(async move { match self.verdict(format!("put {} ({} bytes)", key, data.len())) {
            Verdict::Pass => self.inner.put(key, data).await,
            Verdict::Fail(Effect::NotApplied, k, _) => Err(injected(k)),
            Verdict::Fail(Effect::Applied, k, _) => { self.inner.put(key, data).await?; Err(injected(k)) }
            Verdict::Fail(Effect::Half, k, sel) => { self.inner.put(key, &data[..torn_len(sel, data.len())]).await?; Err(injected(k)) }
        } })
    }
    fn get<'a>(&'a self, key: &'a str) -> Pin<Box<dyn Future<Output = IoResult<Vec<u8>>> + Send + 'a>> {
        Box::pin(async move { match self.verdict(format!("get {}", key)) { Verdict::Pass => self.inner.get(key).await, Verdict::Fail(_, k, _) => Err(injected(k)) } })
    }
    fn exists<'a>(&'a self, key: &'a str) -> Pin<Box<dyn Future<Output = IoResult<bool>> + Send + 'a>> {
        Box::pin(async move { match self.verdict(format!("exists {}", key)) { Verdict::Pass => self.inner.exists(key).await, Verdict::Fail(_, k, _) => Err(injected(k)) } })
    }
    fn delete<'a>(&'a self, key: &'a str) -> Pin<Box<dyn Future<Output = IoResult<()>> + Send + 'a>> {
        Box::pin(async move { match self.verdict(format!("delete {}", key)) { Verdict::Pass => self.inner.delete(key).await, Verdict::Fail(Effect::Applied, k, _) => { self.inner.delete(key).await?; Err(injected(k)) } Verdict::Fail(_, k, _) => Err(injected(k)) } })
    }
    fn list<'a>(&'a self, prefix: &'a str, token: Option<&'a str>) -> Pin<Box<dyn Future<Output = IoResult<ListResult>> + Send + 'a>> {
        Box::pin(async move { match self.verdict(format!("list {}", prefix)) { Verdict::Pass => self.inner.list(prefix, token).await, Verdict::Fail(_, k, _) => Err(injected(k)) } })
    }
    fn rename<'a>(&'a self, from: &'a str, to: &'a str) -> Pin<Box<dyn Future<Output = IoResult<()>> + Send + 'a>> {
        Box::pin(async move { match self.verdict(format!("rename {} -> {}", from, to)) {
            Verdict::Pass => self.inner.rename(from, to).await,
            Verdict::Fail(Effect::NotApplied, k, _) => Err(injected(k)),
            Verdict::Fail(Effect::Applied, k, _) => { self.inner.rename(from, to).await?; Err(injected(k)) }
            // atomic replace of the destination done, the source not yet removed
            Verdict::Fail(Effect::Half, k, _) => { let d = self.inner.get(from).await?; self.inner.put(to, &d).await?; Err(injected(k)) }
        } })
    }
    fn head<'a>(&'a self, key: &'a str) -> Pin<Box<dyn Future<Output = IoResult<ObjectMeta>> + Send + 'a>> {
        Box::pin(async move { match self.verdict(format!("head {}", key)) { Verdict::Pass => self.inner.head(key).await, Verdict::Fail(_, k, _) => Err(injected(k)) } })
    }
}

// ---------------------------------------------------------------- manifests ----------------------------------------------------------------
fn seg_key(rng: &mut Rng, tag: &str, id: u64) -> String {
    match rng.below(5) { 0 => format!("t/segments/{}segment-{:08}.seg", tag, id), 1 => format!("t/segments/{}\"quoted\"\\{}.seg", tag, id), 2 => format!("t/segments/{}ключ-{}\n.seg", tag, id), 3 => format!("t/segments/{}{{}}[],:{}.seg", tag, id), _ => format!("t/segments/{}segment-{:08}.seg", tag, id) }
}
fn gen_segment(rng: &mut Rng, tag: &str, id: u64) -> SegmentInfo {
    let lo = rng.next() >> rng.below(64);
    SegmentInfo { id, key: seg_key(rng, tag, id), record_count: (rng.next() >> 32) as u32 >> rng.below(32), size_bytes: 1 + rng.below(200), min_timestamp: lo, max_timestamp: lo.saturating_add(rng.below(1000)) }
}
/// `tag` keeps the segment keys of different manifests apart
fn gen_manifest(rng: &mut Rng, tag: &str, version: u64) -> Manifest {
    let mut m = Manifest::new(1 + rng.below(3));
    let n = rng.below(5);
    let mut id = rng.below(3);
    for _ in 0..n { m.segments.push(gen_segment(rng, tag, id)); id += 1 + rng.below(3); }
    m.next_segment_id = id + rng.below(2);
    m.version = version;
    if rng.chance(1, 3) { m.checkpoint = Some(CheckpointInfo { key: format!("t/checkpoints/chk-{:016}.chk", rng.below(1 << 40)), timestamp_ms: rng.next() >> rng.below(64), key_count: rng.below(1000), last_segment_id: m.segments.first().map(|s| s.id.saturating_sub(1)).unwrap_or(0) }); }
    if rng.chance(1, 10) { m.version = u64::MAX - 1; m.next_segment_id = u64::MAX - 1; } // counters below u64::MAX: precondition of the unit
    m
}
fn show(m: &Manifest) -> String { format!("manifest(v{}, replica {}, segments {:?}, checkpoint {:?}, next id {})", m.version, m.replica_id, m.segments.iter().map(|s| s.id).collect::<Vec<_>>(), m.checkpoint.as_ref().map(|c| c.last_segment_id), m.next_segment_id) }
fn show_res(r: &Result<Manifest, ManifestError>) -> String { match r { Ok(m) => format!("Ok({})", show(m)), Err(e) => format!("Err({})", match e { ManifestError::NotFound => "NotFound".to_string(), ManifestError::Json(j) => format!("Json: {}", j), ManifestError::Io(i) => format!("Io: {}", i), other => format!("{}", other) }) } }

/// the segment objects a manifest lists, put so that the starting image is consistent
async fn put_segments(inner: &InMemoryObjectStore, m: &Manifest) { for s in &m.segments { let _ = inner.put(&s.key, &vec![0xabu8; s.size_bytes as usize]).await; } }

// ---------------------------------------------------------------- scenarios ----------------------------------------------------------------
/// what a scenario did: the manifests that may legitimately be found afterwards
struct Outcome { old: Option<Manifest>, attempted: Vec<Manifest>, acked: usize, last: String, failed: bool }

const SCENARIOS: usize = 9;
fn scenario_name(sc: usize) -> &'static str {
    ["save(new) on an empty store", "save(new) over an existing manifest", "load_or_create, add a segment, save (the flush protocol)", "ManifestManager::add_segment over an existing manifest", "ManifestManager::update over an existing manifest",
     "save(new1) then save(new2)", "save(new) with a torn temp object left by an earlier crash", "put a segment object, then add_segment", "load_or_create on an empty store, add a segment, save"][sc]
}

/// runs scenario `sc` through `store`; data drawn from `dseed` (identical for every fault placement)
async fn run_scenario(sc: usize, dseed: u64, inner: &InMemoryObjectStore, store: &FaultStore, retry: bool) -> Outcome {
    let mut rng = Rng::new(dseed);
    let clean = ManifestManager::new(inner.clone(), PREFIX);
    let mm = ManifestManager::new(store.clone(), PREFIX);
    let m0 = gen_manifest(&mut rng, "old-", 3);
    let has_old = !matches!(sc, 0 | 8);
    if has_old { put_segments(inner, &m0).await; clean.save(&m0).await.expect("clean save"); }
    if sc == 6 { let junk = serde_prefix(&m0).await; inner.put("t/manifest.json.tmp", &junk).await.expect("clean put"); }
    let mut out = Outcome { old: if has_old { Some(m0.clone()) } else { None }, attempted: Vec::new(), acked: 0, last: String::new(), failed: false };
    let new_seg = { let id = m0.next_segment_id.min(u64::MAX - 2); gen_segment(&mut rng, "added-", id) };
    // one protocol step = one attempted manifest; on Err the "process" reports the error and stops (or retries once)
    macro_rules! save_step { ($m:expr) => {{
        let m: Manifest = $m;
        out.attempted.push(m.clone());
        let mut r = mm.save(&m).await;
        let mut how = String::from("save");
        if let Err(e) = &r { if retry && !store.dead() { how = format!("save -> Err({}), retried", e); r = mm.save(&m).await; } }
        match r { Ok(()) => { out.acked = out.attempted.len(); out.last = format!("{} -> Ok", how); } Err(e) => { out.last = format!("{} -> Err({})", how, e); out.failed = true; return out; } }
    }}; }
    match sc {
        0 | 1 | 6 => { let mut m1 = gen_manifest(&mut rng, "new-", 4); if sc != 0 { m1.replica_id = m0.replica_id; } put_segments(inner, &m1).await; save_step!(m1); }
        2 | 8 => {
            let mut m = match mm.load_or_create(7).await { Ok(m) => m, Err(e) => { out.last = format!("load_or_create -> Err({})", e); out.failed = true; return out; } };
            if has_old && m != m0 { out.attempted.push(m.clone()); out.last = format!("load_or_create -> Ok({})", show(&m)); out.failed = true; out.acked = usize::MAX; return out; }
            if !has_old && (m.replica_id != 7 || m.version != 0 || !m.segments.is_empty() || m.checkpoint.is_some() || m.next_segment_id != 0) { out.attempted.push(m.clone()); out.last = format!("load_or_create -> Ok({})", show(&m)); out.failed = true; out.acked = usize::MAX; return out; }
            let seg = if has_old { new_seg.clone() } else { gen_segment(&mut rng, "added-", 0) };
            if store.put(&seg.key, &vec![0xcd; seg.size_bytes as usize]).await.is_err() { out.last = "segment put -> Err".into(); out.failed = true; return out; }
            m.add_segment(seg);
            save_step!(m);
        }
        3 | 7 => {
            if sc == 7 && store.put(&new_seg.key, &vec![0xcd; new_seg.size_bytes as usize]).await.is_err() { out.last = "segment put -> Err".into(); out.failed = true; return out; }
            if sc == 3 { let _ = inner.put(&new_seg.key, &vec![0xcd; new_seg.size_bytes as usize]).await; }
            let mut want = m0.clone(); want.add_segment(new_seg.clone());
            out.attempted.push(want.clone());
            match mm.add_segment(new_seg.clone()).await {
                Ok(m) => { out.acked = 1; out.last = format!("add_segment -> Ok({})", show(&m)); if m != want { out.attempted[0] = m; out.acked = usize::MAX; } }
                Err(e) => { out.last = format!("add_segment -> Err({})", e); out.failed = true; }
            }
        }
        4 => {
            let _ = inner.put(&new_seg.key, &vec![0xcd; new_seg.size_bytes as usize]).await;
            let mut want = m0.clone(); want.add_segment(new_seg.clone());
            out.attempted.push(want.clone());
            let ns = new_seg.clone();
            match mm.update(move |m| m.add_segment(ns)).await {
                Ok(m) => { out.acked = 1; out.last = format!("update -> Ok({})", show(&m)); if m != want { out.attempted[0] = m; out.acked = usize::MAX; } }
                Err(e) => { out.last = format!("update -> Err({})", e); out.failed = true; }
            }
        }
        _ => { let mut m1 = gen_manifest(&mut rng, "n1-", 4); m1.segments.clear(); let mut m2 = gen_manifest(&mut rng, "n2-", 5); m2.segments.clear(); m1.checkpoint = None; m2.checkpoint = None; save_step!(m1); save_step!(m2); }
    }
    out
}

/// a strict prefix of the pretty JSON of `m` (what a torn put leaves)
async fn serde_prefix(m: &Manifest) -> Vec<u8> { let full = manifest_bytes(m).await; full[..full.len() * 2 / 3].to_vec() }
/// the stored image of a manifest, obtained from the real save on a scratch store (the JSON writer is not a dependency here)
async fn manifest_bytes(m: &Manifest) -> Vec<u8> {
    let s = InMemoryObjectStore::new();
    ManifestManager::new(s.clone(), "x").save(m).await.expect("scratch save");
    s.get("x/manifest.json").await.expect("scratch get")
}

async fn verify(sc: usize, dseed: u64, fault: Option<Fault>, retry: bool, inner: &InMemoryObjectStore, store: &FaultStore, out: &Outcome) -> Option<Found> {
    let ctx = || format!("{} (data seed {}){}; store calls: [{}]; the operation reported: {}", scenario_name(sc), dseed, match fault { None => String::new(), Some(f) => format!("; fault at store call #{}: {}{:?}{}", f.at, if f.die { "the process dies, outcome of the call " } else { "Err, outcome of the call " }, f.effect, if retry { "; a failed save is retried once" } else { "" }) }, store.log(), out.last);
    if out.acked == usize::MAX {
        return Some(Found { input: ctx(), observed: format!("the operation returned {}", out.attempted.last().map(show).unwrap_or_default()), required: format!("the manifest the store holds{}", out.old.as_ref().map(|m| format!(": {}", show(m))).unwrap_or_else(|| " (none: a fresh manifest for replica 7)".into())) });
    }
    let fresh = ManifestManager::new(inner.clone(), PREFIX);
    let got = fresh.load().await;
    // the manifests that may be found: after an acknowledged step the newest acknowledged one or a later attempted one;
    // before any acknowledgement also the old one (or nothing)
    let mut allowed: Vec<&Manifest> = Vec::new();
    if out.acked == 0 { if let Some(o) = &out.old { allowed.push(o); } allowed.extend(out.attempted.iter()); } else { allowed.extend(out.attempted[out.acked - 1..].iter()); }
    if !out.failed && out.acked == out.attempted.len() && out.acked > 0 { allowed = vec![&out.attempted[out.acked - 1]]; }
    let none_ok = out.acked == 0 && out.old.is_none();
    let req = format!("a COMPLETE manifest under {}: {}{}", MKEY, allowed.iter().map(|m| show(m)).collect::<Vec<_>>().join(" or "), if none_ok { " - or no manifest at all (NotFound)" } else { "" });
    match &got {
        Ok(m) if allowed.iter().any(|a| *a == m) => {}
        Err(ManifestError::NotFound) if none_ok => {}
        other => {
            let raw = inner.get(MKEY).await.ok();
            return Some(Found { input: ctx(), observed: format!("afterwards a fresh ManifestManager::load on the bare store returns {}; the object under {} holds {}", show_res(other), MKEY, match raw { None => "nothing".to_string(), Some(b) => format!("{} bytes: {:?}", b.len(), String::from_utf8_lossy(&b[..b.len().min(120)])) }), required: req });
        }
    }
    // load_or_create / exists agree with load
    let loc = fresh.load_or_create(9).await;
    let ok = match (&got, &loc) { (Ok(a), Ok(b)) => a == b, (Err(ManifestError::NotFound), Ok(b)) => b.replica_id == 9 && b.version == 0 && b.segments.is_empty() && b.checkpoint.is_none() && b.next_segment_id == 0, _ => false };
    if !ok { return Some(Found { input: ctx(), observed: format!("load -> {} but load_or_create(9) -> {}", show_res(&got), show_res(&loc)), required: "load_or_create returns what load returns, and a fresh manifest only when there is none".into() }); }
    match fresh.exists().await { Ok(e) if e == got.is_ok() => {} other => return Some(Found { input: ctx(), observed: format!("load -> {} but exists() -> {:?}", show_res(&got), other.map_err(|e| e.to_string())), required: "exists() is true exactly when a manifest is stored".into() }) }
    // the manifest never references an object that is missing or partially written
    if let Ok(m) = &got {
        for s in &m.segments {
            match inner.get(&s.key).await {
                Ok(b) if b.len() as u64 == s.size_bytes => {}
                other => return Some(Found { input: ctx(), observed: format!("the manifest found afterwards ({}) lists segment {} under key {:?} with size {}, but the store holds {}", show(m), s.id, s.key, s.size_bytes, match other { Ok(b) => format!("{} bytes", b.len()), Err(_) => "no such object".into() }), required: "every listed segment is a completely written object of the store".into() }),
            }
        }
    }
    None
}

fn one(rt: &tokio::runtime::Runtime, sc: usize, dseed: u64, fault: Option<Fault>, retry: bool) -> (Option<Found>, u64) {
    rt.block_on(async {
        let inner = InMemoryObjectStore::new();
        // the preparation of the scenario runs on the bare store; the fault index counts the calls of the operation itself
        let store = FaultStore::new(inner.clone(), fault);
        let out = run_scenario(sc, dseed, &inner, &store, retry).await;
        let calls = store.calls();
        (verify(sc, dseed, fault, retry, &inner, &store, &out).await, calls)
    })
}

const KINDS: [ErrorKind; 6] = [ErrorKind::Other, ErrorKind::TimedOut, ErrorKind::PermissionDenied, ErrorKind::UnexpectedEof, ErrorKind::Interrupted, ErrorKind::ConnectionReset];

/// every call index x every outcome of the faulty call x {Err, death}
fn sweep(rt: &tokio::runtime::Runtime, sc: usize, dseed: u64) -> Option<Found> {
    let (f, total) = one(rt, sc, dseed, None, false);
    if f.is_some() { return f; }
    for at in 0..total {
        for die in [true, false] {
            for (effect, torns) in [(Effect::NotApplied, vec![0usize]), (Effect::Applied, vec![0]), (Effect::Half, vec![0, 1, 2, 3, 17])] {
                for torn in torns {
                    let kind = KINDS[((at as usize) + torn + die as usize) % KINDS.len()];
                    let fault = Fault { at, effect, die, kind, torn };
                    let (f, _) = one(rt, sc, dseed, Some(fault), false); if f.is_some() { return f; }
                    if !die { let (f, _) = one(rt, sc, dseed, Some(fault), true); if f.is_some() { return f; } }
                }
            }
        }
    }
    None
}

/// the read side: failing gets and objects that do not parse
fn read_side(rt: &tokio::runtime::Runtime, rng: &mut Rng) -> Option<Found> {
    let m0 = gen_manifest(rng, "r-", 2);
    rt.block_on(async {
        let full = manifest_bytes(&m0).await;
        // (a) the manifest exists, the get fails for another reason than NotFound
        for kind in KINDS {
            let inner = InMemoryObjectStore::new();
            ManifestManager::new(inner.clone(), PREFIX).save(&m0).await.expect("clean save");
            for which in 0..2 {
                let store = FaultStore::new(inner.clone(), Some(Fault { at: 0, effect: Effect::NotApplied, die: false, kind, torn: 0 }));
                let mm = ManifestManager::new(store.clone(), PREFIX);
                let r = if which == 0 { mm.load().await } else { mm.load_or_create(5).await };
                match &r {
                    Err(ManifestError::NotFound) | Ok(_) => return Some(Found { input: format!("the store holds {}; {} while the get of {} fails with an io::Error of kind {:?}", show(&m0), if which == 0 { "load()" } else { "load_or_create(5)" }, MKEY, kind), observed: show_res(&r), required: "the failure is propagated as an error other than NotFound: a manifest exists, a fresh one must never be handed out (the next save would overwrite the real one)".into() }),
                    Err(_) => {}
                }
            }
        }
        // (b) the object under manifest_key does not parse: every strict prefix of a real manifest image, and garbage
        let mut images: Vec<(String, Vec<u8>)> = (0..full.len()).map(|n| (format!("the first {} of the {} bytes of a stored manifest", n, full.len()), full[..n].to_vec())).collect();
        images.push(("the bytes 0xff 0xfe 0x00".into(), vec![0xff, 0xfe, 0]));
        images.push(("the text null".into(), b"null".to_vec()));
        images.push(("a manifest image followed by a second one".into(), [full.clone(), full.clone()].concat()));
        let mut flipped = full.clone(); if let Some(p) = flipped.iter().position(|b| *b == b':') { flipped[p] = b';'; }
        images.push(("a manifest image with its first ':' replaced by ';'".into(), flipped));
        for (what, img) in images {
            let inner = InMemoryObjectStore::new();
            inner.put(MKEY, &img).await.expect("clean put");
            let mm = ManifestManager::new(inner.clone(), PREFIX);
            for which in 0..2 {
                let r = if which == 0 { mm.load().await } else { mm.load_or_create(5).await };
                match &r {
                    Err(ManifestError::NotFound) | Ok(_) => return Some(Found { input: format!("the object under {} holds {}; {}", MKEY, what, if which == 0 { "load()" } else { "load_or_create(5)" }), observed: show_res(&r), required: "an error (not NotFound): an object that is not a complete manifest is never accepted and never replaced by a fresh manifest".into() }),
                    Err(_) => {}
                }
            }
        }
        // (c) nothing stored: NotFound / fresh / exists false; a stored manifest is read back exactly
        let inner = InMemoryObjectStore::new();
        let mm = ManifestManager::new(inner.clone(), PREFIX);
        let (l, c, e) = (mm.load().await, mm.load_or_create(5).await, mm.exists().await);
        if !matches!(l, Err(ManifestError::NotFound)) || !matches!(&c, Ok(m) if *m == Manifest::new(5)) || !matches!(e, Ok(false)) {
            return Some(Found { input: "an empty store".into(), observed: format!("load -> {}, load_or_create(5) -> {}, exists -> {:?}", show_res(&l), show_res(&c), e.map_err(|e| e.to_string())), required: "NotFound, a fresh manifest for replica 5, false".into() });
        }
        None
    })
}

pub fn search(_pid: &str, oid: &str, seed: u64) -> Option<Found> {
    let rt = tokio::runtime::Builder::new_current_thread().enable_all().build().ok()?;
    let mut rng = Rng::new(seed + 1212);
    let lo = oid.to_lowercase();
    let read_first = lo.contains("::load") || lo.contains("from");
    if read_first { if let Some(f) = read_side(&rt, &mut rng) { return Some(f); } }
    for sc in 0..SCENARIOS { for dseed in [1u64, 2, 3] { if let Some(f) = sweep(&rt, sc, dseed) { return Some(f); } } }
    if !read_first { if let Some(f) = read_side(&rt, &mut rng) { return Some(f); } }
    // seeded random: other manifests, every placement again; round trip of random manifests through save / load
    for _ in 0..120u64 {
        let sc = rng.below(SCENARIOS as u64) as usize;
        let dseed = 10 + rng.below(1_000_000);
        if let Some(f) = sweep(&rt, sc, dseed) { return Some(f); }
        if let Some(f) = read_side(&rt, &mut rng) { return Some(f); }
    }
    None
}
