//! Replay drivers: execute the REAL compiled code of /repo on structured + seeded random inputs and
//! look for a concrete violation of the property-level postcondition behind a refuted obligation.
//! usage: verif-replay <property> <obligation-id> <seed>   -> one JSON line {"found":..,"input":..,"observed":..,"required":..}
mod rng;
mod lattice;
mod resp;
mod routing;
mod digest;
mod deltas;
mod wal_codec;
mod wal_rotator;
mod wal_discovery;
mod ring;
mod segment;
mod flush;
mod flush_crash;
mod executor;
mod ttl_ops;
mod conn;
mod conn_loop;
mod shard_actor;
mod sync_keys;
mod sds_codec;
mod coll_ops;
mod txn_ops;
mod shard_apply;
mod recovery;
mod repl_state;
mod list_ops;
mod hash_set_ops;
mod readonly_ops;
mod checkpoint;
mod manifest_io;
mod gossip_queue;
mod zset_container;
mod ckpt_recovery;
mod compaction;
mod sync_exchange;
mod gossip_loop;
mod manifest_race;
mod exec_inline;
mod orset;
mod stream_glue;
mod active_expiry;
mod wal_modes;
mod cmd_parse_opts;
mod actor_reply;
mod sim_substrate;
use std::panic;

pub struct Found {
    pub input: String,
    pub observed: String,
    pub required: String,
}

fn jesc(s: &str) -> String {
    let mut o = String::new();
    for c in s.chars() {
        match c {
            '"' => o.push_str("\\\""),
            '\\' => o.push_str("\\\\"),
            '\n' => o.push_str("\\n"),
            '\r' => o.push_str("\\r"),
            '\t' => o.push_str("\\t"),
            c if (c as u32) < 0x20 => o.push_str(&format!("\\u{:04x}", c as u32)),
            c => o.push(c),
        }
    }
    o
}

fn main() {
    let args: Vec<String> = std::env::args().collect();
    if args.len() < 3 {
        eprintln!("usage: verif-replay <property> <obligation> [seed]");
        std::process::exit(2);
    }
    let pid = args[1].clone();
    let oid = args[2].clone();
    let seed: u64 = args.get(3).and_then(|s| s.parse().ok()).unwrap_or(0);
    panic::set_hook(Box::new(|_| {}));
    if pid == "__sim_substrate_dump" {
        // hidden sub-command of the sim_substrate battery: `verif-replay __sim_substrate_dump <seed>` prints dump(seed) (a fresh process)
        print!("{}", sim_substrate::dump(oid.parse().unwrap_or(0)));
        return;
    }
    let unit = oid.split('/').next().unwrap_or("").to_string();
    let res: Option<Found> = match unit.as_str() {
        "lattice" => lattice::search(&pid, &oid, seed),
        "resp_codec" | "resp_spec" => resp::search(&pid, &oid, seed),
        "routing" | "fanout" => routing::search(&pid, &oid, seed),
        "digest" | "digest_state" | "digest_value" => digest::search(&pid, &oid, seed),
        // wal_files = the multi-file half of the WAL (truncate_before, recover_all_entries, entries_after): same driver, rotator battery first
        "wal_codec" | "wal_files" => wal_codec::search(&pid, &oid, seed),
        "wal_rotator" => wal_rotator::search(&pid, &oid, seed),
        "wal_discovery" => wal_discovery::search(&pid, &oid, seed),
        "ring" => ring::search(&pid, &oid, seed),
        "segment" => segment::search(&pid, &oid, seed),
        "flush" => flush::search(&pid, &oid, seed),
        "flush_crash" => flush_crash::search(&pid, &oid, seed),
        "expiry" => executor::search_expiry(&pid, &oid, seed),
        "incr_frame" => executor::search_incr(&pid, &oid, seed),
        "ttl_ops" => ttl_ops::search(&pid, &oid, seed),
        "err_frame" => executor::search_err(&pid, &oid, seed),
        "conn" | "batch_collect" => conn::search(&pid, &oid, seed),
        "conn_loop" => conn_loop::search(&pid, &oid, seed),
        "conn_txn" | "resp_equal" => conn::search_txn(&pid, &oid, seed),
        "shard_actor" => shard_actor::search(&pid, &oid, seed),
        "sync_keys" => sync_keys::search(&pid, &oid, seed),
        "sds_codec" => sds_codec::search(&pid, &oid, seed),
        "coll_ops" => coll_ops::search(&pid, &oid, seed),
        "txn_ops" => txn_ops::search(&pid, &oid, seed),
        "shard_apply" => shard_apply::search(&pid, &oid, seed),
        "repl_state" => repl_state::search(&pid, &oid, seed),
        "list_ops" => list_ops::search(&pid, &oid, seed),
        "hash_set_ops" => hash_set_ops::search(&pid, &oid, seed),
        "readonly_ops" => readonly_ops::search(&pid, &oid, seed),
        "checkpoint" => checkpoint::search(&pid, &oid, seed),
        "manifest_io" => manifest_io::search(&pid, &oid, seed),
        "gossip_queue" => gossip_queue::search(&pid, &oid, seed),
        "zset_container" => zset_container::search(&pid, &oid, seed),
        "recovery_wal" | "recovered_apply" | "recover_segments" => recovery::search(&pid, &oid, seed),
        "ckpt_recovery" => ckpt_recovery::search(&pid, &oid, seed),
        "compaction" => compaction::search(&pid, &oid, seed),
        "sync_exchange" => sync_exchange::search(&pid, &oid, seed),
        "gossip_loop" => gossip_loop::search(&pid, &oid, seed),
        "manifest_race" => manifest_race::search(&pid, &oid, seed),
        "exec_inline" => exec_inline::search(&pid, &oid, seed),
        "orset" => orset::search(&pid, &oid, seed),
        "stream_glue" => stream_glue::search(&pid, &oid, seed),
        "active_expiry" => active_expiry::search(&pid, &oid, seed),
        "wal_modes" => wal_modes::search(&pid, &oid, seed),
        "cmd_parse_opts" => cmd_parse_opts::search(&pid, &oid, seed),
        "actor_reply" => actor_reply::search(&pid, &oid, seed),
        "sim_substrate" => sim_substrate::search(&pid, &oid, seed),
        _ => None,
    };
    match res {
        Some(f) => println!(
            "{{\"found\": true, \"property\": \"{}\", \"obligation\": \"{}\", \"input\": \"{}\", \"observed\": \"{}\", \"required\": \"{}\"}}",
            jesc(&pid), jesc(&oid), jesc(&f.input), jesc(&f.observed), jesc(&f.required)
        ),
        None => println!(
            "{{\"found\": false, \"property\": \"{}\", \"obligation\": \"{}\", \"reason\": \"search over the witness family of this unit found no failing input on the real code\"}}",
            jesc(&pid), jesc(&oid)
        ),
    }
}
