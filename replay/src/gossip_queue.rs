//! Unit `gossip_queue` (C19, "selective gossip reaches every owner"): the real GossipState::queue_deltas /
//! queue_deltas_broadcast / enforce_outbound_capacity with a real GossipRouter over a real HashRing, for random memberships,
//! virtual-node counts, replication factors, address books, senders and batches, against an independent rendering of
//! "the first min(rf, |members|) distinct nodes clockwise from the key's position" (SipHash positions as the ring computes them):
//!   - selective mode: the messages appended are targeted messages only, exactly ONE per replica that owns at least one delta
//!     of the batch, is not the sender and has a known address; each is TargetedDelta{source = me, target = that replica,
//!     deltas = exactly the batch's deltas owed to it IN BATCH ORDER, epoch = my epoch} - nobody extra, none starved;
//!   - no router / router not selective / queue_deltas_broadcast: exactly one broadcast DeltaBatch{source = me, whole batch, epoch};
//!   - batches of every size class (63 .. 4097 deltas, around powers of two) are handled alike;
//!   - an empty batch queues nothing; messages queued earlier are untouched;
//!   - capacity: afterwards the queue is (old ++ new) without its OLDEST len - MAX_OUTBOUND_QUEUE messages: the new
//!     messages survive, only the oldest are dropped, the order of the rest is kept.
use crate::deltas::{delta_id, gen_delta_auto};
use crate::rng::Rng;
use crate::Found;
use redis_sim::replication::gossip::{GossipMessage, GossipState, RoutedMessage, MAX_OUTBOUND_QUEUE};
use redis_sim::replication::gossip_router::GossipRouter;
use redis_sim::replication::hash_ring::HashRing;
use redis_sim::replication::lattice::ReplicaId;
use redis_sim::replication::state::ReplicationDelta;
use redis_sim::replication::ReplicationConfig;
use std::collections::hash_map::DefaultHasher;
use std::collections::{BTreeMap, HashMap};
use std::hash::{Hash, Hasher};
use std::panic::{catch_unwind, AssertUnwindSafe};
use std::sync::{Arc, RwLock};

fn vpos(node: u64, i: u32) -> u64 { let mut h = DefaultHasher::new(); node.hash(&mut h); i.hash(&mut h); h.finish() }
fn kpos(key: &str) -> u64 { let mut h = DefaultHasher::new(); key.hash(&mut h); h.finish() }

/// the ring as a function of the membership SET: slots sorted by position
struct Model { slots: Vec<(u64, u64)>, members: usize }
impl Model {
    fn new(members: &[u64], vn: u32) -> Self {
        let mut set: Vec<u64> = members.to_vec(); set.sort(); set.dedup();
        let mut slots: Vec<(u64, u64)> = Vec::new();
        for &m in &set { for i in 0..vn { slots.push((vpos(m, i), m)); } }
        slots.sort();
        Model { slots, members: set.len() }
    }
    fn replicas(&self, key: &str, rf: usize) -> Vec<u64> {
        let n = rf.min(self.members);
        let mut out: Vec<u64> = Vec::new();
        if self.slots.is_empty() { return out; }
        let kp = kpos(key);
        let start = self.slots.partition_point(|(p, _)| *p < kp) % self.slots.len();
        for step in 0..self.slots.len() {
            if out.len() >= n { break; }
            let node = self.slots[(start + step) % self.slots.len()].1;
            if !out.contains(&node) { out.push(node); }
        }
        out
    }
}

#[derive(Clone, Debug)]
struct Setup { members: Vec<u64>, vn: u32, rf: usize, me: u64, addressed: Vec<u64>, mode: Mode, epoch: u64 }
#[derive(Clone, Copy, Debug, PartialEq)]
enum Mode { Selective, RouterNotSelective, NoRouter, BroadcastCall }

fn show_setup(s: &Setup) -> String {
    format!("ring members {:?} ({} virtual nodes each, replication factor {}), sender {} at epoch {}, peers with a known address {:?}, {}", s.members, s.vn, s.rf, s.me, s.epoch, s.addressed,
        match s.mode { Mode::Selective => "selective router; queue_deltas", Mode::RouterNotSelective => "router with selective_mode = false; queue_deltas", Mode::NoRouter => "no router; queue_deltas", Mode::BroadcastCall => "selective router; queue_deltas_broadcast" })
}

fn make_state(s: &Setup) -> GossipState {
    let cfg = ReplicationConfig { enabled: true, replica_id: s.me, replication_factor: s.rf, ..Default::default() };
    let mut st = if s.mode == Mode::NoRouter { GossipState::new(cfg) } else {
        let ring = HashRing::new(s.members.iter().map(|m| ReplicaId::new(*m)).collect(), s.vn, s.rf);
        let addrs: HashMap<ReplicaId, String> = s.addressed.iter().map(|a| (ReplicaId::new(*a), format!("10.0.0.{}:7000", a))).collect();
        GossipState::with_router(cfg, GossipRouter::new(Arc::new(RwLock::new(ring)), ReplicaId::new(s.me), addrs, s.mode != Mode::RouterNotSelective))
    };
    for _ in 0..s.epoch { st.advance_epoch(); }
    st
}

/// everything observable of a queued message
fn msg_id(m: &RoutedMessage) -> String {
    let body = match &m.message {
        GossipMessage::DeltaBatch { source_replica, deltas, epoch } => format!("DeltaBatch{{source={}, epoch={}, deltas=[{}]}}", source_replica.0, epoch, deltas.iter().map(delta_id).collect::<Vec<_>>().join(" ; ")),
        GossipMessage::TargetedDelta { source_replica, target_replica, deltas, epoch } => format!("TargetedDelta{{source={}, target={}, epoch={}, deltas=[{}]}}", source_replica.0, target_replica.0, epoch, deltas.iter().map(delta_id).collect::<Vec<_>>().join(" ; ")),
        GossipMessage::Heartbeat { source_replica, epoch } => format!("Heartbeat{{source={}, epoch={}}}", source_replica.0, epoch),
        other => format!("{:?}", other),
    };
    format!("to {}: {}", m.target.map(|t| t.0.to_string()).unwrap_or_else(|| "ALL".into()), body)
}
fn short(s: &str) -> String { if s.len() > 700 { format!("{}..({} chars)", s.chars().take(700).collect::<String>(), s.len()) } else { s.to_string() } }
fn keys_of(batch: &[ReplicationDelta]) -> String { format!("[{}]", batch.iter().map(|d| format!("{:?}", d.key)).collect::<Vec<_>>().join(", ")) }

/// what the batch owes: target -> the ids of its deltas in batch order (selective), or the single broadcast message
fn expected(s: &Setup, batch: &[ReplicationDelta]) -> Vec<String> {
    if batch.is_empty() { return Vec::new(); }
    if s.mode != Mode::Selective {
        return vec![format!("to ALL: DeltaBatch{{source={}, epoch={}, deltas=[{}]}}", s.me, s.epoch, batch.iter().map(delta_id).collect::<Vec<_>>().join(" ; "))];
    }
    let model = Model::new(&s.members, s.vn);
    let mut owed: BTreeMap<u64, Vec<String>> = BTreeMap::new();
    for d in batch {
        for t in model.replicas(&d.key, s.rf) { if t != s.me && s.addressed.contains(&t) { owed.entry(t).or_default().push(delta_id(d)); } }
    }
    owed.into_iter().map(|(t, ids)| format!("to {}: TargetedDelta{{source={}, target={}, epoch={}, deltas=[{}]}}", t, s.me, t, s.epoch, ids.join(" ; "))).collect()
}

fn call(st: &mut GossipState, s: &Setup, batch: Vec<ReplicationDelta>) -> Result<(), String> {
    catch_unwind(AssertUnwindSafe(|| if s.mode == Mode::BroadcastCall { st.queue_deltas_broadcast(batch) } else { st.queue_deltas(batch) }))
        .map_err(|e| e.downcast_ref::<String>().cloned().or_else(|| e.downcast_ref::<&str>().map(|s| s.to_string())).unwrap_or_default())
}

/// one call on a queue that already holds `prefill` older messages
fn check(s: &Setup, prefill: usize, batch: &[ReplicationDelta]) -> Option<Found> {
    let mut st = make_state(s);
    // older, undrained messages: heartbeats told apart by their epoch field
    for i in 0..prefill { st.outbound_queue.push(RoutedMessage::broadcast(GossipMessage::new_heartbeat(ReplicaId::new(s.me), 1_000_000 + i as u64))); }
    let old: Vec<String> = st.outbound_queue.iter().map(msg_id).collect();
    let input = || format!("{}; the outbound queue holds {} older messages; batch of {} deltas with keys {}", show_setup(s), prefill, batch.len(), keys_of(batch));
    if let Err(p) = call(&mut st, s, batch.to_vec()) { return Some(Found { input: input(), observed: format!("panic: {}", p), required: "the messages are queued".into() }); }
    let got: Vec<String> = st.outbound_queue.iter().map(msg_id).collect();
    let mut want_new = expected(s, batch);
    let total = old.len() + want_new.len();
    // an empty batch returns before the capacity step: the queue is exactly what it was
    let dropped = if batch.is_empty() { 0 } else { total.saturating_sub(MAX_OUTBOUND_QUEUE) };
    let why = if s.mode == Mode::Selective { "exactly one targeted message per replica that owns a delta of the batch (other than the sender, with a known address), carrying exactly the deltas owed to it in batch order" } else { "exactly one broadcast message carrying the whole batch" };
    if got.len() != total - dropped {
        return Some(Found { input: input(), observed: format!("the queue holds {} messages afterwards; the last ones: {}", got.len(), short(&got.iter().rev().take(want_new.len() + 2).rev().cloned().collect::<Vec<_>>().join(" | "))), required: format!("{} messages: the {} older ones plus {} new ({}){}", total - dropped, old.len(), want_new.len(), why, if dropped > 0 { format!(", minus the {} OLDEST (capacity {})", dropped, MAX_OUTBOUND_QUEUE) } else { String::new() }) });
    }
    if dropped <= old.len() {
        // the surviving older messages: exactly old[dropped..], in order
        let keep = &old[dropped..];
        if got[..keep.len()] != *keep {
            let at = (0..keep.len()).find(|i| got[*i] != keep[*i]).unwrap_or(0);
            return Some(Found { input: input(), observed: format!("position {} of the queue holds {}", at, short(&got[at])), required: format!("{}: the older messages are untouched and only the {} OLDEST are dropped (capacity {}), order kept", short(&keep[at]), dropped, MAX_OUTBOUND_QUEUE) });
        }
        // the new messages: all of them, as a set (the routing table is a hash map: their relative order is free)
        let mut new: Vec<String> = got[keep.len()..].to_vec();
        new.sort(); want_new.sort();
        if new != want_new {
            let extra: Vec<&String> = new.iter().filter(|m| !want_new.contains(m)).collect();
            let missing: Vec<&String> = want_new.iter().filter(|m| !new.contains(m)).collect();
            return Some(Found { input: input(), observed: format!("appended: {}", short(&if extra.is_empty() { format!("({} messages, none of them wrong)", new.len()) } else { extra.iter().map(|s| s.as_str()).collect::<Vec<_>>().join(" | ") })), required: format!("{}; expected and not found: {}", why, short(&if missing.is_empty() { "(nothing - the extra messages above must not be there)".to_string() } else { missing.iter().map(|s| s.as_str()).collect::<Vec<_>>().join(" | ") })) });
        }
    }
    None
}

fn key_pool(rng: &mut Rng) -> Vec<String> {
    let mut k: Vec<String> = vec!["".into(), "a".into(), "ключ".into(), "user:1".into(), "key_484".into(), "k\0x".into()];
    for i in 0..20 { k.push(format!("key_{}", i)); }
    for _ in 0..6 { k.push(format!("r{:x}", rng.next())); }
    k
}

/// several calls in a row (same epoch, nothing drained in between): each call appends ITS OWN messages carrying ITS OWN deltas -
/// a later write of a key never replaces, absorbs or suppresses a delta queued earlier (each delta carries its own stamp; the
/// receiver needs every one of them to end with the same stamp as the sender)
fn check_calls(s: &Setup, batches: &[Vec<ReplicationDelta>]) -> Option<Found> {
    let mut st = make_state(s);
    let mut want: Vec<Vec<String>> = Vec::new();
    for b in batches {
        if let Err(p) = call(&mut st, s, b.clone()) { return Some(Found { input: format!("{}; {} consecutive calls", show_setup(s), batches.len()), observed: format!("panic: {}", p), required: "the messages are queued".into() }); }
        want.push(expected(s, b));
    }
    let total: usize = want.iter().map(|w| w.len()).sum();
    if total > MAX_OUTBOUND_QUEUE { return None; }
    let got: Vec<String> = st.outbound_queue.iter().map(msg_id).collect();
    let input = format!("{}; empty outbound queue; {} consecutive calls in one epoch, nothing drained in between, batches with keys {}", show_setup(s), batches.len(), batches.iter().map(|b| keys_of(b)).collect::<Vec<_>>().join(" then "));
    if got.len() != total {
        return Some(Found { input, observed: format!("the queue holds {} messages: {}", got.len(), short(&got.join(" | "))), required: format!("{} messages: every call appends its own ({})", total, short(&want.iter().map(|w| w.join(" | ")).collect::<Vec<_>>().join(" || "))) });
    }
    let mut at = 0usize;
    for (i, w) in want.iter().enumerate() {
        let mut seg: Vec<String> = got[at..at + w.len()].to_vec();
        let mut ws = w.clone();
        seg.sort(); ws.sort();
        if seg != ws {
            return Some(Found { input, observed: format!("call #{} left: {}", i + 1, short(&seg.join(" | "))), required: short(&ws.join(" | ")) });
        }
        at += w.len();
    }
    None
}

fn gen_batch(rng: &mut Rng, pool: &[String], n: usize) -> Vec<ReplicationDelta> {
    (0..n).map(|i| { let kind = if rng.chance(1, 8) { i as u64 % 10 } else { rng.below(3) }; let mut d = gen_delta_auto(rng, kind); d.key = rng.pick(pool).clone(); d }).collect()
}

pub fn search(_pid: &str, oid: &str, seed: u64) -> Option<Found> {
    let mut rng = Rng::new(seed + 1901);
    let pool = key_pool(&mut rng);
    let capacity_first = oid.contains("enforce_outbound_capacity");
    let capacity = |rng: &mut Rng| -> Option<Found> {
        for mode in [Mode::Selective, Mode::NoRouter, Mode::BroadcastCall, Mode::RouterNotSelective] {
            let s = Setup { members: vec![1, 2, 3, 4, 5], vn: 16, rf: 3, me: 1, addressed: vec![2, 3, 4, 5], mode, epoch: 4 };
            let batch = gen_batch(rng, &pool, 10);
            let k = expected(&s, &batch).len();
            for prefill in [MAX_OUTBOUND_QUEUE - k - 1, MAX_OUTBOUND_QUEUE - k, MAX_OUTBOUND_QUEUE - k + 1, MAX_OUTBOUND_QUEUE - 1, MAX_OUTBOUND_QUEUE, MAX_OUTBOUND_QUEUE + 3] {
                if let Some(f) = check(&s, prefill, &batch) { return Some(f); }
                if let Some(f) = check(&s, prefill, &[]) { return Some(f); }
            }
        }
        None
    };
    if capacity_first { if let Some(f) = capacity(&mut rng) { return Some(f); } }
    // ---- structured: small clusters, every sender, every mode, address books with holes
    for (members, vn, rf) in [(vec![1u64, 2, 3], 1u32, 1usize), (vec![1, 2, 3], 16, 2), (vec![1, 2, 3], 16, 3), (vec![1, 2, 3], 16, 7), (vec![1, 2, 3, 4, 5], 150, 3), (vec![7, 3, 11, 2, 5, 13], 8, 2), (vec![1], 16, 3), (vec![], 16, 3), (vec![4, 4, 9], 3, 2)] {
        let mut senders: Vec<u64> = members.clone(); senders.push(99); senders.dedup();
        for me in senders {
            let full: Vec<u64> = members.iter().cloned().filter(|m| *m != me).collect();
            let mut holes = full.clone(); if !holes.is_empty() { holes.remove(0); }
            let mut with_self = full.clone(); with_self.push(me); with_self.push(1234);
            for addressed in [full.clone(), holes, with_self, vec![]] {
                for mode in [Mode::Selective, Mode::RouterNotSelective, Mode::NoRouter, Mode::BroadcastCall] {
                    for (epoch, prefill, n) in [(0u64, 0usize, 0usize), (0, 0, 1), (3, 2, 1), (1, 0, 12), (2, 5, 30)] {
                        let s = Setup { members: members.clone(), vn, rf, me, addressed: addressed.clone(), mode, epoch };
                        let batch = gen_batch(&mut rng, &pool, n);
                        if let Some(f) = check(&s, prefill, &batch) { return Some(f); }
                    }
                }
            }
        }
    }
    // consecutive calls in one epoch: a re-write of the SAME value (later stamp), a different value, other keys
    for mode in [Mode::NoRouter, Mode::RouterNotSelective, Mode::BroadcastCall, Mode::Selective] {
        let s = Setup { members: vec![1, 2, 3, 4], vn: 16, rf: 2, me: 1, addressed: vec![2, 3, 4], mode, epoch: 3 };
        for n in [1usize, 2, 5] {
            let a = gen_batch(&mut rng, &pool, n);
            let mut same_value_later_stamp = a.clone();
            for d in same_value_later_stamp.iter_mut() { d.value.timestamp.time += 1; }
            let other = gen_batch(&mut rng, &pool, n);
            let mut same_keys_other_values = gen_batch(&mut rng, &pool, n);
            for (d, o) in same_keys_other_values.iter_mut().zip(a.iter()) { d.key = o.key.clone(); }
            for seq in [vec![a.clone(), same_value_later_stamp.clone()], vec![a.clone(), same_keys_other_values.clone()], vec![a.clone(), other.clone(), same_value_later_stamp.clone()], vec![a.clone(), a.clone()]] {
                if let Some(f) = check_calls(&s, &seq) { return Some(f); }
            }
        }
    }
    // the same key several times in one batch: every copy is owed, in order
    {
        let s = Setup { members: vec![1, 2, 3, 4], vn: 16, rf: 2, me: 1, addressed: vec![2, 3, 4], mode: Mode::Selective, epoch: 1 };
        let mut batch = gen_batch(&mut rng, &pool, 6);
        for d in batch.iter_mut() { d.key = "same".into(); }
        if let Some(f) = check(&s, 1, &batch) { return Some(f); }
    }
    // large batches (no size class of a per-target share may be split, truncated or lose its remainder): sizes around powers of two
    for n in [63usize, 64, 65, 127, 128, 129, 255, 256, 257, 511, 512, 513, 700, 1023, 1024, 1025, 1536, 2049, 4097] {
        for (members, rf, me) in [(vec![1u64, 2, 3], 3usize, 1u64), (vec![1, 2, 3, 4, 5], 2, 3)] {
            let addressed: Vec<u64> = members.iter().cloned().filter(|m| *m != me).collect();
            for mode in [Mode::Selective, Mode::NoRouter] {
                let s = Setup { members: members.clone(), vn: 16, rf, me, addressed: addressed.clone(), mode, epoch: 2 };
                let batch = gen_batch(&mut rng, &pool, n);
                if let Some(f) = check(&s, 1, &batch) { return Some(f); }
            }
        }
    }
    if !capacity_first { if let Some(f) = capacity(&mut rng) { return Some(f); } }
    // ---- seeded random
    for _ in 0..3000u64 {
        let nm = rng.below(9) as usize;
        let members: Vec<u64> = (0..nm).map(|_| 1 + rng.below(12)).collect();
        let vn = *rng.pick(&[1u32, 2, 3, 16, 40, 150]);
        let rf = *rng.pick(&[1usize, 2, 3, 3, 5, 12]);
        let me = if rng.chance(1, 8) || members.is_empty() { 50 + rng.below(3) } else { *rng.pick(&members) };
        let addressed: Vec<u64> = (1..=12u64).filter(|_| rng.chance(3, 4)).collect();
        let mode = match rng.below(8) { 0 => Mode::NoRouter, 1 => Mode::RouterNotSelective, 2 => Mode::BroadcastCall, _ => Mode::Selective };
        let s = Setup { members, vn, rf, me, addressed, mode, epoch: rng.below(5) };
        let n = match rng.below(6) { 0 => 0, 1 => 1, _ => 1 + rng.below(25) as usize };
        let batch = gen_batch(&mut rng, &pool, n);
        let prefill = if rng.chance(1, 60) { MAX_OUTBOUND_QUEUE - rng.below(4) as usize } else { rng.below(4) as usize };
        if let Some(f) = check(&s, prefill, &batch) { return Some(f); }
    }
    None
}
