//! Unit `list_ops` (C01): every list command of executor/list_ops.rs + data/list.rs (LPUSH RPUSH LPOP RPOP LLEN LINDEX LRANGE
//! LSET LTRIM RPOPLPUSH LMOVE) through the real `CommandExecutor::execute` against an INDEPENDENT oracle over Vec<Vec<u8>>
//! written from the Redis command documentation (the oracle of contracts/list_ops/unit.vt):
//!   - reply == oracle reply (WRONGTYPE on non-lists, nil / empty array / 0 on a missing key, "no such key" / "index out of range");
//!   - the full visible keyspace afterwards == oracle keyspace: a key whose list became empty is gone, a created key has no
//!     TTL, an existing key KEEPS its TTL (also RPOPLPUSH k k / LMOVE k k on a one-element list), every other key and
//!     TTL is untouched, an error reply changes nothing;
//!   - negative / out-of-range indexes over the whole isize domain, binary elements, expired-but-unpurged keys (= absent).
//! Structured scenarios first (those of the refuted handler before the others), then seeded random command sequences over
//! three list keys + four wrong-type keys with a clock that advances on both clock paths; a mismatch is shrunk.
use crate::executor::{advance, exec, Clock};
use crate::rng::Rng;
use crate::Found;
use redis_sim::redis::{Command, CommandExecutor, RespValue, SDS};
use redis_sim::simulator::VirtualTime;
use std::collections::BTreeMap;

type Bytes = Vec<u8>;

fn esc(b: &[u8]) -> String {
    let mut o = String::from("\"");
    for &c in b { if (0x20..0x7f).contains(&c) && c != b'"' && c != b'\\' { o.push(c as char); } else { o.push_str(&format!("\\x{:02x}", c)); } }
    o.push('"');
    o
}
fn esc_list(l: &[Bytes]) -> String { format!("[{}]", l.iter().map(|e| esc(e)).collect::<Vec<_>>().join(",")) }
fn b(s: &str) -> SDS { SDS::new(s.as_bytes().to_vec()) }

#[derive(Clone, PartialEq, Debug)]
enum Kind { List(Vec<Bytes>), Other(&'static str, String) } // Other(type name, canonical rendering): never touched by a list command

#[derive(Clone, PartialEq, Debug)]
enum Reply { Int(i128), Nil, Bulk(Bytes), Arr(Vec<Bytes>), Ok, Err, Other(String) }

fn show_reply(r: &Reply) -> String {
    match r { Reply::Int(i) => format!(":{}", i), Reply::Nil => "nil".into(), Reply::Bulk(v) => esc(v), Reply::Arr(a) => esc_list(a), Reply::Ok => "+OK".into(), Reply::Err => "an error".into(), Reply::Other(s) => s.clone() }
}
fn to_reply(r: &RespValue) -> Reply {
    match r {
        RespValue::Integer(i) => Reply::Int(*i as i128),
        RespValue::BulkString(None) => Reply::Nil,
        RespValue::BulkString(Some(v)) => Reply::Bulk(v.clone()),
        RespValue::SimpleString(s) if s == "OK" => Reply::Ok,
        RespValue::Error(_) => Reply::Err,
        RespValue::Array(Some(a)) if a.iter().all(|x| matches!(x, RespValue::BulkString(Some(_)))) => Reply::Arr(a.iter().map(|x| if let RespValue::BulkString(Some(v)) = x { v.clone() } else { Vec::new() }).collect()),
        other => Reply::Other(format!("{:?}", other)),
    }
}

// ---------------------------------------------------------------- the oracle ----------------------------------------------------------------
#[derive(Clone)]
struct Model { now: u64, keys: BTreeMap<String, (Kind, Option<u64>)> }

/// LRANGE / LTRIM: "offsets can also be negative numbers indicating offsets starting at the end of the list ... Out of range
/// indexes will not produce an error. If start is larger than the end of the list, an empty list is returned. If stop is larger
/// than the actual end of the list, Redis will treat it like the last element of the list."
fn o_range(l: &[Bytes], start: isize, stop: isize) -> Vec<Bytes> {
    let len = l.len() as i128;
    let s = if start < 0 { (len + start as i128).max(0) } else { start as i128 };
    let e = if stop < 0 { len + stop as i128 } else { (stop as i128).min(len - 1) };
    if s > e || s >= len { Vec::new() } else { l[s as usize..=e as usize].to_vec() }
}
/// LINDEX / LSET: "-1 means the last element"; out of range: nil (LINDEX) / error (LSET)
fn o_index(len: usize, index: isize) -> Option<usize> {
    let i = if index < 0 { len as i128 + index as i128 } else { index as i128 };
    if 0 <= i && i < len as i128 { Some(i as usize) } else { None }
}

impl Model {
    fn visible(&self, k: &str) -> bool { self.keys.get(k).map(|(_, d)| d.map(|d| d > self.now).unwrap_or(true)).unwrap_or(false) }
    /// the list a client sees under k (a key that does not exist reads as the empty list); Err = wrong type
    fn list_of(&self, k: &str) -> Result<Vec<Bytes>, ()> {
        if !self.visible(k) { return Ok(Vec::new()); }
        match &self.keys[k].0 { Kind::List(l) => Ok(l.clone()), _ => Err(()) }
    }
    /// afterwards k holds exactly l: "when the last element is removed the key is deleted"; an existing key keeps its time to
    /// live, a created key has none
    fn put(&mut self, k: &str, l: Vec<Bytes>) {
        let ttl = if self.visible(k) { self.keys[k].1 } else { None };
        if l.is_empty() { self.keys.remove(k); } else { self.keys.insert(k.to_string(), (Kind::List(l), ttl)); }
    }
    fn mv(&mut self, src: &str, dst: &str, from_left: bool, to_left: bool) -> Reply {
        let mut ls = match self.list_of(src) { Ok(l) => l, Err(()) => return Reply::Err };
        if ls.is_empty() { return Reply::Nil; } // "nil when source does not exist"
        let ld = match self.list_of(dst) { Ok(l) => l, Err(()) => return Reply::Err };
        let v = if from_left { ls.remove(0) } else { ls.pop().unwrap() };
        if src == dst {
            // "if source and destination are the same, the operation is equivalent to removing the element and pushing it"
            if to_left { ls.insert(0, v.clone()); } else { ls.push(v.clone()); }
            self.put(src, ls);
        } else {
            let mut ld = ld;
            if to_left { ld.insert(0, v.clone()); } else { ld.push(v.clone()); }
            self.put(src, ls);
            self.put(dst, ld);
        }
        Reply::Bulk(v)
    }
    /// (reply to compare or None, for the helper commands whose reply is not the business of this unit)
    fn apply(&mut self, c: &Command) -> Option<Reply> {
        Some(match c {
            Command::LPush(k, vs) | Command::RPush(k, vs) => match self.list_of(k) {
                Err(()) => Reply::Err,
                Ok(mut l) => { for v in vs { if matches!(c, Command::LPush(..)) { l.insert(0, v.as_bytes().to_vec()); } else { l.push(v.as_bytes().to_vec()); } } let n = l.len(); self.put(k, l); Reply::Int(n as i128) }
            },
            Command::LPop(k) | Command::RPop(k) => match self.list_of(k) {
                Err(()) => Reply::Err,
                Ok(l) if l.is_empty() => Reply::Nil,
                Ok(mut l) => { let v = if matches!(c, Command::LPop(_)) { l.remove(0) } else { l.pop().unwrap() }; self.put(k, l); Reply::Bulk(v) }
            },
            Command::LLen(k) => match self.list_of(k) { Err(()) => Reply::Err, Ok(l) => Reply::Int(l.len() as i128) },
            Command::LIndex(k, i) => match self.list_of(k) { Err(()) => Reply::Err, Ok(l) => match o_index(l.len(), *i) { Some(j) => Reply::Bulk(l[j].clone()), None => Reply::Nil } },
            Command::LRange(k, s, e) => match self.list_of(k) { Err(()) => Reply::Err, Ok(l) => Reply::Arr(o_range(&l, *s, *e)) },
            Command::LSet(k, i, v) => match self.list_of(k) {
                Err(()) => Reply::Err,
                Ok(l) if l.is_empty() => Reply::Err, // "ERR no such key"
                Ok(mut l) => match o_index(l.len(), *i) { None => Reply::Err, Some(j) => { l[j] = v.as_bytes().to_vec(); self.put(k, l); Reply::Ok } }
            },
            Command::LTrim(k, s, e) => match self.list_of(k) { Err(()) => Reply::Err, Ok(l) => { if !l.is_empty() { let t = o_range(&l, *s, *e); self.put(k, t); } Reply::Ok } },
            Command::RPopLPush(s, d) => self.mv(s, d, false, true),
            Command::LMove { source, dest, wherefrom, whereto } => self.mv(source, dest, wherefrom == "LEFT", whereto == "LEFT"),
            // ---- helpers that shape the keyspace (their replies belong to units ttl_ops / expiry) ----
            Command::PExpire { key, milliseconds, .. } => { if self.visible(key) && *milliseconds > 0 { let d = self.now + *milliseconds as u64; self.keys.get_mut(key.as_str()).unwrap().1 = Some(d); } return None; }
            Command::Persist(key) => { if self.visible(key) { self.keys.get_mut(key.as_str()).unwrap().1 = None; } return None; }
            Command::Del(ks) => { for k in ks { self.keys.remove(k.as_str()); } return None; }
            Command::Set { key, value, .. } => { self.keys.insert(key.clone(), (Kind::Other("string", esc(value.as_bytes())), None)); return None; }
            _ => return None,
        })
    }
    fn snapshot(&self) -> Vec<String> {
        let vis: Vec<&String> = self.keys.keys().filter(|k| self.visible(k)).collect();
        let mut out = vec![format!("dbsize={}", vis.len())];
        for k in vis {
            let (v, d) = &self.keys[k.as_str()];
            let (ty, val) = match v { Kind::List(l) => ("list", esc_list(l)), Kind::Other(t, r) => (*t, r.clone()) };
            out.push(format!("{}: {} {} pttl={}", k, ty, val, match d { None => -1, Some(d) => (*d - self.now) as i128 }));
        }
        out
    }
}

// ---------------------------------------------------------------- the real side ----------------------------------------------------------------
fn bulks(r: &RespValue) -> Option<Vec<Bytes>> {
    if let RespValue::Array(Some(a)) = r { a.iter().map(|x| if let RespValue::BulkString(Some(v)) = x { Some(v.clone()) } else { None }).collect() } else { None }
}
fn int(r: &RespValue) -> Option<i64> { if let RespValue::Integer(i) = r { Some(*i) } else { None } }

/// the visible keyspace in the format of Model::snapshot; Err = the keyspace is inconsistent in itself
fn real_snapshot(ex: &mut CommandExecutor) -> Result<Vec<String>, String> {
    let mut keys: Vec<String> = bulks(&ex.execute(&Command::Keys("*".into()))).ok_or("KEYS * is not an array")?.into_iter().map(|k| String::from_utf8_lossy(&k).to_string()).collect();
    keys.sort();
    let db = int(&ex.execute(&Command::DbSize)).unwrap_or(-1);
    if db != keys.len() as i64 { return Err(format!("DBSIZE {} but KEYS * lists {:?}", db, keys)); }
    let mut out = vec![format!("dbsize={}", keys.len())];
    for k in keys {
        let ty = match ex.execute(&Command::TypeOf(k.clone())) { RespValue::SimpleString(s) => s.to_string(), other => format!("{:?}", other) };
        let val = match ty.as_str() {
            "list" => {
                let l = bulks(&ex.execute(&Command::LRange(k.clone(), 0, -1))).ok_or(format!("LRANGE {} 0 -1 is not an array of bulk strings", k))?;
                let n = int(&ex.execute(&Command::LLen(k.clone()))).unwrap_or(-1);
                if n != l.len() as i64 { return Err(format!("LLEN {} = {} but LRANGE {} 0 -1 has {} elements", k, n, k, l.len())); }
                if l.is_empty() { return Err(format!("key {} exists (KEYS *, TYPE list) but holds an EMPTY list", k)); }
                esc_list(&l)
            }
            "string" => match ex.execute(&Command::Get(k.clone())) { RespValue::BulkString(Some(v)) => esc(&v), other => format!("{:?}", other) },
            "set" => { let mut m = bulks(&ex.execute(&Command::SMembers(k.clone()))).unwrap_or_default(); m.sort(); format!("{{{}}}", m.iter().map(|e| esc(e)).collect::<Vec<_>>().join(",")) }
            "hash" => { let a = bulks(&ex.execute(&Command::HGetAll(k.clone()))).unwrap_or_default(); let mut p: Vec<String> = a.chunks(2).map(|c| c.iter().map(|e| esc(e)).collect::<Vec<_>>().join("=")).collect(); p.sort(); format!("{{{}}}", p.join(",")) }
            "zset" => esc_list(&bulks(&ex.execute(&Command::ZRange(k.clone(), 0, -1, true))).unwrap_or_default()),
            other => return Err(format!("key {} is listed by KEYS * but TYPE says {}", k, other)),
        };
        if int(&ex.execute(&Command::Exists(vec![k.clone()]))) != Some(1) { return Err(format!("key {} is listed by KEYS * but EXISTS says 0", k)); }
        let pttl = int(&ex.execute(&Command::Pttl(k.clone()))).unwrap_or(i64::MIN);
        out.push(format!("{}: {} {} pttl={}", k, ty, val, pttl));
    }
    Ok(out)
}

fn text(c: &Command) -> String {
    let l = |vs: &Vec<SDS>| vs.iter().map(|v| esc(v.as_bytes())).collect::<Vec<_>>().join(" ");
    match c {
        Command::LPush(k, vs) => format!("LPUSH {} {}", k, l(vs)), Command::RPush(k, vs) => format!("RPUSH {} {}", k, l(vs)),
        Command::LPop(k) => format!("LPOP {}", k), Command::RPop(k) => format!("RPOP {}", k), Command::LLen(k) => format!("LLEN {}", k),
        Command::LIndex(k, i) => format!("LINDEX {} {}", k, i), Command::LRange(k, s, e) => format!("LRANGE {} {} {}", k, s, e),
        Command::LSet(k, i, v) => format!("LSET {} {} {}", k, i, esc(v.as_bytes())), Command::LTrim(k, s, e) => format!("LTRIM {} {} {}", k, s, e),
        Command::RPopLPush(s, d) => format!("RPOPLPUSH {} {}", s, d),
        Command::LMove { source, dest, wherefrom, whereto } => format!("LMOVE {} {} {} {}", source, dest, wherefrom, whereto),
        Command::PExpire { key, milliseconds, .. } => format!("PEXPIRE {} {}", key, milliseconds), Command::Persist(k) => format!("PERSIST {}", k),
        Command::Del(ks) => format!("DEL {}", ks.join(" ")), Command::Set { key, value, .. } => format!("SET {} {}", key, esc(value.as_bytes())),
        other => format!("{:?}", other),
    }
}

#[derive(Clone, Debug)]
enum Step { Cmd(Command), Clock(Clock, u64) }
fn step_text(s: &Step) -> String { match s { Step::Cmd(c) => text(c), Step::Clock(m, t) => format!("[clock -> {} via {}]", t, if *m == Clock::Active { "set_time" } else { "update_time_readonly" }) } }

const T0: u64 = 1000;
const PREAMBLE: &str = "keyspace at clock 1000: s=string \"str\", st=set {\"1\"}, h=hash {\"f\"=\"v\"}, z=zset [\"m\",\"1\"]";

fn fresh() -> (CommandExecutor, Model) {
    let mut ex = CommandExecutor::new();
    ex.set_time(VirtualTime::from_millis(T0));
    ex.execute(&Command::set("s".into(), b("str")));
    ex.execute(&Command::SAdd("st".into(), vec![b("1")]));
    ex.execute(&Command::HSet("h".into(), vec![(b("f"), b("v"))]));
    ex.execute(&Command::ZAdd { key: "z".into(), pairs: vec![(1.0, b("m"))], nx: false, xx: false, gt: false, lt: false, ch: false });
    let mut m = Model { now: T0, keys: BTreeMap::new() };
    m.keys.insert("s".into(), (Kind::Other("string", "\"str\"".into()), None));
    m.keys.insert("st".into(), (Kind::Other("set", "{\"1\"}".into()), None));
    m.keys.insert("h".into(), (Kind::Other("hash", "{\"f\"=\"v\"}".into()), None));
    m.keys.insert("z".into(), (Kind::Other("zset", "[\"m\",\"1\"]".into()), None));
    (ex, m)
}

/// run the sequence on a fresh executor and a fresh oracle; first disagreement (index, observed, required)
fn run_seq(steps: &[Step]) -> Option<(usize, String, String)> {
    let (mut ex, mut m) = fresh();
    for (i, s) in steps.iter().enumerate() {
        match s {
            Step::Clock(mode, t) => { advance(&mut ex, *mode, *t); m.now = *t; }
            Step::Cmd(c) => {
                let before = m.snapshot();
                let want = m.apply(c);
                let got = match exec(&mut ex, c) { Ok(r) => r, Err(p) => return Some((i, format!("panic: {}", p), format!("reply {}", want.as_ref().map(show_reply).unwrap_or_else(|| "(any)".into())))) };
                if let Some(w) = &want {
                    let g = to_reply(&got);
                    if &g != w { return Some((i, format!("reply {}", show_reply(&g)), format!("reply {}", show_reply(w)))); }
                    if *w == Reply::Err && before != m.snapshot() { return Some((i, "oracle changed state on an error (driver bug)".into(), String::new())); }
                }
            }
        }
        let a = match real_snapshot(&mut ex) { Ok(a) => a, Err(e) => return Some((i, e, "a consistent keyspace: a key whose list became empty does not exist; LLEN / LRANGE / EXISTS / DBSIZE / KEYS agree".into())) };
        let bm = m.snapshot();
        if a != bm {
            let got: Vec<String> = a.iter().filter(|l| !bm.contains(l)).cloned().collect();
            let want: Vec<String> = bm.iter().filter(|l| !a.contains(l)).cloned().collect();
            return Some((i, format!("visible keyspace after the step: {}{}", got.join(" | "), if got.is_empty() { "(entries missing)" } else { "" }), format!("{}{}", want.join(" | "), if want.is_empty() { "(those entries absent)" } else { "" })));
        }
    }
    None
}

fn check(steps: &[Step], label: &str) -> Option<Found> {
    let (i, _, _) = run_seq(steps)?;
    let mut min: Vec<Step> = steps[..=i].to_vec();
    let fails_at_end = |s: &[Step]| run_seq(s).map(|(j, _, _)| j == s.len() - 1).unwrap_or(false);
    let mut j = 0;
    while j + 1 < min.len() {
        let mut cand = min.clone(); cand.remove(j);
        if fails_at_end(&cand) { min = cand; } else { j += 1; }
    }
    let (_, got, want) = run_seq(&min)?;
    Some(Found { input: format!("{} ({}), shrunk to: {}", label, PREAMBLE, min.iter().map(step_text).collect::<Vec<_>>().join(" ; ")), observed: format!("after the last step: {}", got), required: format!("{} (Redis command documentation: the key keeps its TTL, an emptied list is deleted, a created key has no TTL, other keys untouched)", want) })
}

fn pexp(k: &str, ms: i64) -> Step { Step::Cmd(Command::PExpire { key: k.into(), milliseconds: ms, nx: false, xx: false, gt: false, lt: false }) }
fn rpush(k: &str, vs: &[&str]) -> Step { Step::Cmd(Command::RPush(k.into(), vs.iter().map(|v| b(v)).collect())) }
fn lmove(s: &str, d: &str, f: &str, t: &str) -> Command { Command::LMove { source: s.into(), dest: d.into(), wherefrom: f.into(), whereto: t.into() } }
const DIRS: [(&str, &str); 4] = [("LEFT", "LEFT"), ("LEFT", "RIGHT"), ("RIGHT", "LEFT"), ("RIGHT", "RIGHT")];
const IDX: [isize; 15] = [isize::MIN, isize::MIN + 1, -100, -5, -4, -3, -2, -1, 0, 1, 2, 3, 4, 100, isize::MAX];

fn structured() -> Vec<(String, Vec<Step>)> {
    let mut out: Vec<(String, Vec<Step>)> = Vec::new();
    let elems = ["e0", "e1", "e2", "e3"];
    // --- moves: one key onto itself / two keys, list lengths 1..3, with and without TTL, all directions
    for n in 1..=3usize {
        for ttl in [true, false] {
            let mut base = vec![rpush("a", &elems[..n])];
            if ttl { base.push(pexp("a", 100_000)); }
            let mut s = base.clone(); s.push(Step::Cmd(Command::RPopLPush("a".into(), "a".into()))); s.push(Step::Cmd(Command::RPopLPush("a".into(), "a".into())));
            out.push((format!("RPOPLPUSH k k on a {}-element list{}", n, if ttl { " with a TTL" } else { "" }), s));
            for (f, t) in DIRS {
                let mut s = base.clone(); s.push(Step::Cmd(lmove("a", "a", f, t))); s.push(Step::Cmd(lmove("a", "a", f, t)));
                out.push((format!("LMOVE k k {} {} on a {}-element list{}", f, t, n, if ttl { " with a TTL" } else { "" }), s));
            }
            for dst_state in 0..3 {
                // destination: absent / an existing list with its own TTL / an existing list without TTL
                let mut pre = base.clone();
                if dst_state >= 1 { pre.push(rpush("b", &["x", "y"])); }
                if dst_state == 1 { pre.push(pexp("b", 7_000)); }
                let mut s = pre.clone(); for _ in 0..n + 1 { s.push(Step::Cmd(Command::RPopLPush("a".into(), "b".into()))); }
                out.push((format!("RPOPLPUSH src dst draining a {}-element source{}", n, if ttl { " with a TTL" } else { "" }), s));
                for (f, t) in DIRS { let mut s = pre.clone(); for _ in 0..n + 1 { s.push(Step::Cmd(lmove("a", "b", f, t))); } out.push((format!("LMOVE src dst {} {} draining a {}-element source", f, t, n), s)); }
            }
        }
    }
    // --- pushes / pops / reads / LSET / LTRIM on lists of length 0..4 over the index table, with a TTL on the key
    for n in 0..=4usize {
        let mut base: Vec<Step> = Vec::new();
        if n > 0 { base.push(rpush("a", &elems[..n])); base.push(pexp("a", 50_000)); }
        let mut s = base.clone();
        for &i in &IDX { s.push(Step::Cmd(Command::LIndex("a".into(), i))); }
        out.push((format!("LINDEX over the index table on a {}-element list", n), s));
        let mut s = base.clone();
        for &i in &IDX { for &j in &IDX { s.push(Step::Cmd(Command::LRange("a".into(), i, j))); } }
        out.push((format!("LRANGE over the index table on a {}-element list", n), s));
        for &i in &IDX { let mut s = base.clone(); s.push(Step::Cmd(Command::LSet("a".into(), i, b("NEW")))); s.push(Step::Cmd(Command::LLen("a".into()))); out.push((format!("LSET index {} on a {}-element list", i, n), s)); }
        for &i in &IDX { for &j in &IDX {
            let mut s = base.clone(); s.push(Step::Cmd(Command::LTrim("a".into(), i, j))); s.push(rpush("a", &["tail"]));
            out.push((format!("LTRIM {} {} on a {}-element list, then RPUSH", i, j, n), s));
        } }
        let mut s = base.clone();
        s.push(Step::Cmd(Command::LPush("a".into(), vec![b("p1"), b("p2"), b("p3")]))); s.push(Step::Cmd(Command::RPush("a".into(), vec![b("q1"), b("q2")]))); s.push(Step::Cmd(Command::LLen("a".into())));
        for _ in 0..n + 6 { s.push(Step::Cmd(if s.len() % 2 == 0 { Command::LPop("a".into()) } else { Command::RPop("a".into()) })); }
        s.push(rpush("a", &["again"]));
        out.push((format!("LPUSH / RPUSH / LLEN then LPOP / RPOP draining a {}-element list with a TTL, then RPUSH", n), s));
    }
    // --- binary elements
    let bin: Vec<SDS> = vec![SDS::new(vec![]), SDS::new(vec![0]), SDS::new(vec![0xff, 0xfe]), SDS::new(vec![0x80, b'a', 0, b'\r', b'\n']), SDS::new(vec![0xc3, 0x28]), SDS::new("é".as_bytes().to_vec())];
    out.push(("LPUSH / RPUSH of binary elements, read back and moved".into(), vec![Step::Cmd(Command::RPush("a".into(), bin.clone())), Step::Cmd(Command::LPush("a".into(), bin.clone())), Step::Cmd(Command::LRange("a".into(), 0, -1)), Step::Cmd(Command::LIndex("a".into(), 2)), Step::Cmd(Command::LSet("a".into(), 1, SDS::new(vec![0xfd, 0]))), Step::Cmd(Command::RPopLPush("a".into(), "b".into())), Step::Cmd(lmove("a", "b", "LEFT", "RIGHT")), Step::Cmd(Command::LPop("a".into())), Step::Cmd(Command::RPop("a".into())), Step::Cmd(Command::LRange("b".into(), 0, -1))]));
    // --- wrong-type keys: every command, as the only key, as source, as destination
    for w in ["s", "st", "h", "z"] {
        let cmds: Vec<Command> = vec![Command::LPush(w.into(), vec![b("x")]), Command::RPush(w.into(), vec![b("x")]), Command::LPop(w.into()), Command::RPop(w.into()), Command::LLen(w.into()), Command::LIndex(w.into(), 0), Command::LRange(w.into(), 0, -1), Command::LSet(w.into(), 0, b("x")), Command::LTrim(w.into(), 0, 0)];
        for ttl in [false, true] {
            let mut s: Vec<Step> = if ttl { vec![pexp(w, 9_000)] } else { vec![] };
            s.extend(cmds.iter().cloned().map(Step::Cmd));
            out.push((format!("LPUSH RPUSH LPOP RPOP LLEN LINDEX LRANGE LSET LTRIM on the wrong-type key {}", w), s));
        }
        let mut s = vec![rpush("a", &["e0", "e1"]), pexp("a", 5_000), Step::Cmd(Command::RPopLPush("a".into(), w.into())), Step::Cmd(Command::RPopLPush(w.into(), "a".into())), Step::Cmd(Command::RPopLPush(w.into(), "fresh".into())), Step::Cmd(Command::RPopLPush("missing".into(), w.into())), Step::Cmd(Command::RPopLPush(w.into(), w.into()))];
        for (f, t) in DIRS { s.push(Step::Cmd(lmove("a", w, f, t))); s.push(Step::Cmd(lmove(w, "a", f, t))); s.push(Step::Cmd(lmove("missing", w, f, t))); s.push(Step::Cmd(lmove(w, w, f, t))); }
        out.push((format!("RPOPLPUSH / LMOVE with the wrong-type key {} as source or destination", w), s));
        // the wrong-type key has expired but is not purged: it reads as absent, a list can be created there without TTL
        for c in [Command::RPush(w.into(), vec![b("n")]), Command::LPush(w.into(), vec![b("n")]), Command::RPopLPush("a".into(), w.into()), lmove("a", w, "LEFT", "RIGHT"), Command::LLen(w.into()), Command::LRange(w.into(), 0, -1), Command::LSet(w.into(), 0, b("x")), Command::LTrim(w.into(), 0, 0), Command::LPop(w.into())] {
            for mode in [Clock::Lazy, Clock::Active] {
                out.push((format!("{} when the wrong-type key {} is past its deadline", text(&c).split(' ').next().unwrap_or(""), w), vec![rpush("a", &["e0", "e1"]), pexp(w, 500), Step::Clock(mode, T0 + 500), Step::Cmd(c.clone()), Step::Clock(mode, T0 + 60_000), Step::Cmd(Command::LLen(w.into()))]));
            }
        }
    }
    // --- list keys past their deadline (lazy path: expired but not purged): they read as absent / start from nothing
    for c in [Command::RPush("a".into(), vec![b("n")]), Command::LPush("a".into(), vec![b("n")]), Command::LPop("a".into()), Command::RPop("a".into()), Command::LLen("a".into()), Command::LIndex("a".into(), 0), Command::LRange("a".into(), 0, -1), Command::LSet("a".into(), 0, b("x")), Command::LTrim("a".into(), 0, 0), Command::RPopLPush("a".into(), "b".into()), Command::RPopLPush("b".into(), "a".into()), Command::RPopLPush("a".into(), "a".into()), lmove("a", "b", "LEFT", "LEFT"), lmove("b", "a", "RIGHT", "RIGHT"), lmove("a", "a", "LEFT", "RIGHT")] {
        for (mode, t) in [(Clock::Lazy, T0 + 299), (Clock::Lazy, T0 + 300), (Clock::Lazy, T0 + 301), (Clock::Active, T0 + 300)] {
            out.push((format!("{} around the deadline of list a", text(&c).split(' ').next().unwrap_or("")), vec![rpush("a", &["e0", "e1"]), pexp("a", 300), rpush("b", &["x"]), pexp("b", 90_000), Step::Clock(mode, t), Step::Cmd(c.clone()), Step::Cmd(Command::LRange("a".into(), 0, -1)), Step::Clock(mode, T0 + 1_000), Step::Cmd(Command::LRange("a".into(), 0, -1)), Step::Cmd(Command::LRange("b".into(), 0, -1))]));
        }
    }
    out
}

const KEYS: [&str; 7] = ["a", "b", "c", "a", "b", "s", "st"];
const WRONG: [&str; 4] = ["s", "st", "h", "z"];

fn random_steps(rng: &mut Rng) -> Vec<Step> {
    let mut now = T0;
    let mut deadlines: Vec<u64> = Vec::new();
    let mut steps = Vec::new();
    let mode_pref = rng.below(3);
    let n = 15 + rng.below(45);
    for i in 0..n {
        let k = if rng.chance(1, 12) { rng.pick(&WRONG).to_string() } else { rng.pick(&KEYS).to_string() };
        let k2 = if rng.chance(1, 4) { k.clone() } else { rng.pick(&KEYS).to_string() };
        let idx = |rng: &mut Rng| -> isize { match rng.below(10) { 0 => *rng.pick(&IDX), _ => rng.below(9) as isize - 4 } };
        let val = |rng: &mut Rng| -> SDS { match rng.below(8) { 0 => SDS::new(vec![]), 1 => SDS::new(vec![0xff, (rng.next() & 0xff) as u8]), 2 => SDS::new(vec![0, b'x']), _ => b(&format!("v{}", i)) } };
        let c = match rng.below(34) {
            0 | 1 | 2 => Command::RPush(k, (0..1 + rng.below(3)).map(|_| val(rng)).collect()),
            3 | 4 => Command::LPush(k, (0..1 + rng.below(3)).map(|_| val(rng)).collect()),
            5 | 6 => Command::LPop(k), 7 | 8 => Command::RPop(k), 9 => Command::LLen(k),
            10 | 11 => Command::LIndex(k, idx(rng)), 12 | 13 => Command::LRange(k, idx(rng), idx(rng)),
            14 | 15 => Command::LSet(k, idx(rng), val(rng)), 16 | 17 => Command::LTrim(k, idx(rng), idx(rng)),
            18 | 19 | 20 => Command::RPopLPush(k, k2),
            21 | 22 | 23 => { let (f, t) = *rng.pick(&DIRS); lmove(&k, &k2, f, t) }
            24 | 25 | 26 => { let ms = match rng.below(4) { 0 => 1, 1 => 1 + rng.below(50) as i64, _ => 1 + rng.below(5000) as i64 }; deadlines.push(now + ms as u64); Command::PExpire { key: k, milliseconds: ms, nx: false, xx: false, gt: false, lt: false } }
            27 => Command::Persist(k),
            28 => Command::Del(vec![rng.pick(&["a", "b", "c"]).to_string()]),
            29 => Command::set(rng.pick(&["a", "b", "c"]).to_string(), b("plain")),
            _ => {
                let target = if !deadlines.is_empty() && rng.chance(2, 3) { let d = *rng.pick(&deadlines); match rng.below(3) { 0 => d.saturating_sub(1), 1 => d, _ => d + 1 } } else { now + rng.below(3000) };
                if target > now { now = target; }
                let mode = match mode_pref { 0 => Clock::Active, 1 => Clock::Lazy, _ => if rng.chance(1, 2) { Clock::Active } else { Clock::Lazy } };
                steps.push(Step::Clock(mode, now));
                continue;
            }
        };
        steps.push(Step::Cmd(c));
    }
    steps
}

pub fn search(_pid: &str, oid: &str, seed: u64) -> Option<Found> {
    // "list_ops/CommandExecutor::execute_rpoplpush/ensures#4" -> the RPOPLPUSH scenarios first; "list_ops/RedisList::trim/.." -> LTRIM
    let hint = oid.split("execute_").nth(1).map(|r| r.split('/').next().unwrap_or("").to_uppercase())
        .or_else(|| oid.split("RedisList::").nth(1).map(|r| match r.split('/').next().unwrap_or("") { "range" => "LRANGE".into(), "get" => "LINDEX".into(), "set" => "LSET".into(), "trim" => "LTRIM".into(), other => other.to_uppercase() }))
        .unwrap_or_default();
    let all = structured();
    if !hint.is_empty() {
        for (label, steps) in all.iter().filter(|(l, _)| l.contains(&hint)) { if let Some(f) = check(steps, label) { return Some(f); } }
    }
    for (label, steps) in &all { if let Some(f) = check(steps, label) { return Some(f); } }
    let mut rng = Rng::new(seed + 1101);
    for it in 0..8000u64 {
        let steps = random_steps(&mut rng);
        if let Some(f) = check(&steps, &format!("random sequence {} (seed {})", it, seed)) { return Some(f); }
    }
    None
}
