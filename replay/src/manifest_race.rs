//! C12 / C13 ("every interleaving with concurrent flushes"): the flush path and the compactor both rewrite the manifest
//! (load -> modify a copy -> save) and run as two tasks in production (StreamingIntegration::start_workers).  A gate in the object
//! store holds the compactor right before it uploads its output segment - after it has loaded the manifest and read its inputs -,
//! a complete flush runs meanwhile, then the compactor goes on.  Required: recovery returns every update of the flush that
//! reported success (and everything that was there before).
use crate::Found;
use redis_sim::redis::SDS;
use redis_sim::replication::lattice::{LamportClock, ReplicaId};
use redis_sim::replication::state::{ReplicatedValue, ReplicationDelta};
use redis_sim::streaming::compaction::{CompactionConfig, Compactor};
use redis_sim::streaming::{InMemoryObjectStore, ListResult, ManifestManager, ObjectMeta, ObjectStore, RecoveryManager, StreamingPersistence, WriteBufferConfig};
use std::collections::BTreeMap;
use std::future::Future;
use std::io::Result as IoResult;
use std::pin::Pin;
use std::sync::atomic::{AtomicBool, Ordering};
use std::sync::Arc;
use tokio::sync::Notify;

const PREFIX: &str = "t";

/// the compactor's handle to the store: its first segment `put` waits at the gate
#[derive(Clone)]
struct GateStore { inner: InMemoryObjectStore, armed: Arc<AtomicBool>, at_put: bool, reached: Arc<Notify>, open: Arc<Notify> }
impl ObjectStore for GateStore {
    fn put<'a>(&'a self, key: &'a str, data: &'a [u8]) -> Pin<Box<dyn Future<Output = IoResult<()>> + Send + 'a>> {
        Box::pin(async move {
            if self.at_put && key.contains("/segments/") && self.armed.swap(false, Ordering::SeqCst) {
                self.reached.notify_one();
                self.open.notified().await;
            }
            self.inner.put(key, data).await
        })
    }
    fn get<'a>(&'a self, key: &'a str) -> Pin<Box<dyn Future<Output = IoResult<Vec<u8>>> + Send + 'a>> {
        Box::pin(async move {
            if !self.at_put && key.contains("/segments/") && self.armed.swap(false, Ordering::SeqCst) {
                self.reached.notify_one();
                self.open.notified().await;
            }
            self.inner.get(key).await
        })
    }
    fn exists<'a>(&'a self, key: &'a str) -> Pin<Box<dyn Future<Output = IoResult<bool>> + Send + 'a>> { self.inner.exists(key) }
    fn delete<'a>(&'a self, key: &'a str) -> Pin<Box<dyn Future<Output = IoResult<()>> + Send + 'a>> { self.inner.delete(key) }
    fn list<'a>(&'a self, prefix: &'a str, token: Option<&'a str>) -> Pin<Box<dyn Future<Output = IoResult<ListResult>> + Send + 'a>> { self.inner.list(prefix, token) }
    fn rename<'a>(&'a self, from: &'a str, to: &'a str) -> Pin<Box<dyn Future<Output = IoResult<()>> + Send + 'a>> { self.inner.rename(from, to) }
    fn head<'a>(&'a self, key: &'a str) -> Pin<Box<dyn Future<Output = IoResult<ObjectMeta>> + Send + 'a>> { self.inner.head(key) }
}

fn set(key: &str, val: &str, t: u64) -> ReplicationDelta {
    ReplicationDelta::new(key.to_string(), ReplicatedValue::with_value(SDS::from_str(val), LamportClock { time: t, replica_id: ReplicaId(1) }), ReplicaId(1))
}
async fn recovered(store: &InMemoryObjectStore) -> Result<BTreeMap<String, String>, String> {
    let st = RecoveryManager::new(store.clone(), PREFIX, 1).recover().await.map_err(|e| e.to_string())?;
    let mut m: BTreeMap<String, ReplicatedValue> = BTreeMap::new();
    for d in &st.deltas { let v = match m.get(&d.key) { Some(o) => o.merge(&d.value), None => d.value.clone() }; m.insert(d.key.clone(), v); }
    Ok(m.into_iter().filter_map(|(k, v)| v.get().map(|s| (k, String::from_utf8_lossy(s.as_bytes()).to_string()))).collect())
}

/// at_put = false: the compactor is held at its first segment READ (manifest loaded, inputs not yet read);
/// at_put = true : it is held right before uploading its output segment.  The flush runs as its own task, as in production.
async fn scenario(at_put: bool) -> Option<Found> {
    let inner = InMemoryObjectStore::new();
    // flush path and compactor as StreamingIntegration::start_workers builds them: handles to the same store, ONE shared manifest lock
    let lock = Arc::new(tokio::sync::Mutex::new(()));
    let mut p = StreamingPersistence::new(Arc::new(inner.clone()), PREFIX.to_string(), 1, WriteBufferConfig::test()).await.ok()?;
    p.set_manifest_lock(lock.clone());
    for i in 0..3u64 { p.push(set(&format!("old{}", i), "v", 10 + i)).ok()?; p.flush().await.ok()?; }
    let gate = GateStore { inner: inner.clone(), armed: Arc::new(AtomicBool::new(true)), at_put, reached: Arc::new(Notify::new()), open: Arc::new(Notify::new()) };
    let gs = Arc::new(gate.clone());
    let mut c = Compactor::new(gs.clone(), PREFIX.to_string(), ManifestManager::new((*gs).clone(), PREFIX), CompactionConfig::test());
    c.set_manifest_lock(lock.clone());
    let ctask = tokio::spawn(async move { c.compact().await.map(|r| (r.segments_removed.len(), r.segment_created.map(|s| s.key))).map_err(|e| e.to_string()) });
    gate.reached.notified().await;
    // meanwhile: an update is accepted and a flush is started (it may have to wait for the compactor)
    p.push(set("fresh", "acknowledged-by-a-successful-flush", 99)).ok()?;
    let ftask = tokio::spawn(async move { let r = p.flush().await; r.map(|x| (x.deltas_flushed, x.segment.map(|s| s.key))).map_err(|e| e.to_string()) });
    tokio::time::sleep(std::time::Duration::from_millis(30)).await;
    gate.open.notify_one();
    let cres = ctask.await.ok()?;
    let fres = ftask.await.ok()?;
    let input = format!("three flushed segments old0..old2; Compactor::compact() is held {}; meanwhile push(fresh) + flush() runs as its own task -> {:?}; the compactor continues -> {:?}; then RecoveryManager::recover", if at_put { "right before uploading its output segment" } else { "at its first segment read (manifest already loaded)" }, fres, cres);
    let flush_ok = fres.is_ok();
    match recovered(&inner).await {
        Err(e) => Some(Found { input, observed: format!("recovery fails: {}", e), required: "recovery succeeds and returns every update of every flush that reported success".into() }),
        Ok(m) => {
            for k in ["old0", "old1", "old2", "fresh"] {
                if k == "fresh" && !flush_ok { continue; }
                if !m.contains_key(k) { return Some(Found { input, observed: format!("recovered keys {:?}: {:?} is missing", m.keys().collect::<Vec<_>>(), k), required: "every update of every flush that reported success is recovered, whatever the interleaving with a compaction".into() }); }
            }
            None
        }
    }
}

pub fn search(_pid: &str, _oid: &str, _seed: u64) -> Option<Found> {
    let rt = tokio::runtime::Builder::new_current_thread().enable_all().build().ok()?;
    rt.block_on(async {
        for at_put in [false, true] {
            if let Some(f) = tokio::time::timeout(std::time::Duration::from_secs(20), scenario(at_put)).await.unwrap_or(None) { return Some(f); }
        }
        None
    })
}
