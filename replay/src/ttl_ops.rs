//! Unit `ttl_ops` (C01): the TTL command family against an INDEPENDENT executable model written from the Redis command
//! documentation (the oracle of contracts/ttl_ops/unit.vt): map key -> (value, optional absolute deadline), virtual clock.
//! Random command sequences with clock advances (both clock paths: set_time = active purge, update_time_readonly = lazy, so
//! expired-but-unpurged keys exist) run on the real CommandExecutor and on the model; every reply and the full visible
//! keyspace (type, value, PTTL of every key, DBSIZE) are compared after every step.  A mismatch is shrunk to a minimal sequence.
use crate::executor::{advance, cmd_text, exec, fresh, set_opts, show, snapshot, sds, Clock};
use crate::rng::Rng;
use crate::Found;
use redis_sim::redis::{Command, RespValue, SDS};
use std::collections::BTreeMap;

#[derive(Clone, Debug, PartialEq)]
enum Val { Str(Vec<u8>), Other(&'static str, &'static str) } // Other(type name, rendered value)

#[derive(Clone, Debug, PartialEq)]
enum Reply { Ok, Int(i128), Nil, Bulk(Vec<u8>), Err }

fn show_reply(r: &Reply) -> String {
    match r { Reply::Ok => "+OK".into(), Reply::Int(i) => format!(":{}", i), Reply::Nil => "nil".into(), Reply::Bulk(b) => format!("\"{}\"", String::from_utf8_lossy(b)), Reply::Err => "an error".into() }
}

#[derive(Clone)]
struct Model { now: i128, epoch: i128, keys: BTreeMap<String, (Val, Option<i128>)> }

const I64MAX: i128 = i64::MAX as i128;
const SECS_LIM: i128 = 9223372036854775;

impl Model {
    fn visible(&self, k: &str) -> bool { self.keys.get(k).map(|(_, d)| d.map(|d| d > self.now).unwrap_or(true)).unwrap_or(false) }
    /// a key past its deadline does not exist: forget it before a command looks at it
    fn purge(&mut self, k: &str) { if self.keys.contains_key(k) && !self.visible(k) { self.keys.remove(k); } }
    fn ttl_of(&self, k: &str) -> Option<i128> { if self.visible(k) { self.keys[k].1 } else { None } }
    fn old_string(&self, k: &str) -> Result<Reply, ()> {
        if !self.visible(k) { return Ok(Reply::Nil); }
        match &self.keys[k].0 { Val::Str(b) => Ok(Reply::Bulk(b.clone())), _ => Err(()) }
    }
    fn write(&mut self, k: &str, v: &SDS, deadline: Option<i128>) {
        // SET-style write: "any previous time to live is discarded"; a requested instant that is not in the future deletes the key
        match deadline { Some(d) if d <= self.now => { self.keys.remove(k); } d => { self.keys.insert(k.to_string(), (Val::Str(v.as_bytes().to_vec()), d)); } }
    }
    fn unix_now(&self) -> i128 { (self.epoch + self.now).min(I64MAX) }

    /// EXPIRE family: `deadline` = requested absolute instant (virtual ms)
    fn expire(&mut self, k: &str, deadline: i128, nx: bool, xx: bool, gt: bool, lt: bool) -> Reply {
        self.purge(k);
        if !self.visible(k) { return Reply::Int(0); }
        let cur = self.keys[k].1;
        let volatile = cur.is_some();
        // "a non-volatile key is treated as an infinite TTL for the purpose of GT and LT"
        let allow = !(nx && volatile) && !(xx && !volatile) && !(gt && (!volatile || deadline <= cur.unwrap())) && !(lt && volatile && deadline >= cur.unwrap());
        if !allow { return Reply::Int(0); }
        if deadline <= self.now { self.keys.remove(k); } else { self.keys.get_mut(k).unwrap().1 = Some(deadline); }
        Reply::Int(1)
    }
    fn ttl_query(&self, k: &str, f: impl Fn(i128) -> i128) -> Reply {
        if !self.visible(k) { Reply::Int(-2) } else { match self.keys[k].1 { None => Reply::Int(-1), Some(d) => Reply::Int(f(d)) } }
    }
    fn opt_deadline(&self, ex: &Option<i64>, px: &Option<i64>, exat: &Option<i64>, pxat: &Option<i64>) -> Option<i128> {
        if let Some(s) = ex { Some(self.now + *s as i128 * 1000) } else if let Some(m) = px { Some(self.now + *m as i128) }
        else if let Some(t) = exat { Some(*t as i128 * 1000 - self.epoch) } else if let Some(t) = pxat { Some(*t as i128 - self.epoch) } else { None }
    }
    fn mset(&mut self, pairs: &[(String, SDS)]) { for (k, v) in pairs { self.write(k, v, None); } }

    /// None = command outside the model
    fn apply(&mut self, c: &Command) -> Option<Reply> {
        Some(match c {
            Command::Expire { key, seconds, nx, xx, gt, lt } => {
                let s = *seconds as i128;
                if s > SECS_LIM || s < -SECS_LIM || s * 1000 > I64MAX - self.unix_now() { Reply::Err } else { self.expire(key, self.now + s * 1000, *nx, *xx, *gt, *lt) }
            }
            Command::PExpire { key, milliseconds, nx, xx, gt, lt } => {
                let m = *milliseconds as i128;
                if m > I64MAX - self.unix_now() { Reply::Err } else { self.expire(key, self.now + m, *nx, *xx, *gt, *lt) }
            }
            Command::ExpireAt(k, ts) => self.expire(k, *ts as i128 * 1000 - self.epoch, false, false, false, false),
            Command::PExpireAt(k, ts) => self.expire(k, *ts as i128 - self.epoch, false, false, false, false),
            // the code rounds the remaining milliseconds UP to whole seconds (stated in the unit's contract)
            Command::Ttl(k) => { let now = self.now; self.ttl_query(k, |d| (d - now + 999) / 1000) }
            Command::Pttl(k) => { let now = self.now; self.ttl_query(k, |d| d - now) }
            Command::ExpireTime(k) => { let e = self.epoch; self.ttl_query(k, |d| (e + d) / 1000) }
            Command::PExpireTime(k) => { let e = self.epoch; self.ttl_query(k, |d| e + d) }
            Command::Persist(k) => { self.purge(k); if self.visible(k) && self.keys[k].1.is_some() { self.keys.get_mut(k).unwrap().1 = None; Reply::Int(1) } else { Reply::Int(0) } }
            Command::Set { key, value, ex, px, exat, pxat, nx, xx, get, keepttl } => {
                let invalid = ex.map(|v| v <= 0 || v as i128 > SECS_LIM).unwrap_or(false) || px.map(|v| v <= 0).unwrap_or(false) || exat.map(|v| v <= 0).unwrap_or(false) || pxat.map(|v| v <= 0).unwrap_or(false);
                if invalid { return Some(Reply::Err); }
                self.purge(key);
                let old = if *get { match self.old_string(key) { Ok(r) => Some(r), Err(()) => return Some(Reply::Err) } } else { None };
                let exists = self.visible(key);
                let performed = !(*nx && exists) && !(*xx && !exists);
                if performed {
                    let ttl = match self.opt_deadline(ex, px, exat, pxat) { Some(d) => Some(d), None => if *keepttl { self.ttl_of(key) } else { None } };
                    self.write(key, value, ttl);
                }
                match old { Some(r) => r, None => if performed { Reply::Ok } else { Reply::Nil } }
            }
            Command::SetNx(k, v) => { self.purge(k); if self.visible(k) { Reply::Int(0) } else { self.write(k, v, None); Reply::Int(1) } }
            Command::GetSet(k, v) => { self.purge(k); match self.old_string(k) { Ok(r) => { self.write(k, v, None); r } Err(()) => Reply::Err } }
            Command::GetDel(k) => { self.purge(k); match self.old_string(k) { Ok(r) => { self.keys.remove(k.as_str()); r } Err(()) => Reply::Err } }
            Command::GetEx { key, ex, px, exat, pxat, persist } => {
                self.purge(key);
                if !self.visible(key) { return Some(Reply::Nil); }
                let r = match self.old_string(key) { Ok(r) => r, Err(()) => return Some(Reply::Err) };
                if ex.map(|v| v <= 0 || v as i128 > SECS_LIM).unwrap_or(false) || px.map(|v| v <= 0).unwrap_or(false) { return Some(Reply::Err); }
                match self.opt_deadline(ex, px, exat, pxat) {
                    Some(d) => { if d <= self.now { self.keys.remove(key.as_str()); } else { self.keys.get_mut(key.as_str()).unwrap().1 = Some(d); } }
                    None => if *persist { self.keys.get_mut(key.as_str()).unwrap().1 = None; },
                }
                r
            }
            Command::MSet(p) | Command::BatchSet(p) => { self.mset(p); Reply::Ok }
            Command::MSetNx(p) => { for (k, _) in p { self.purge(k); } if p.iter().any(|(k, _)| self.visible(k)) { Reply::Int(0) } else { self.mset(p); Reply::Int(1) } }
            Command::Get(k) => match self.old_string(k) { Ok(r) => r, Err(()) => Reply::Err },
            Command::Del(ks) => { let mut n = 0; for k in ks { if self.visible(k) { n += 1; } self.keys.remove(k.as_str()); } Reply::Int(n) }
            Command::Exists(ks) => Reply::Int(ks.iter().filter(|k| self.visible(k)).count() as i128),
            Command::Append(k, v) => {
                self.purge(k);
                if !self.visible(k) { self.keys.insert(k.clone(), (Val::Str(v.as_bytes().to_vec()), None)); Reply::Int(v.as_bytes().len() as i128) }
                else { match &mut self.keys.get_mut(k.as_str()).unwrap().0 { Val::Str(b) => { b.extend_from_slice(v.as_bytes()); Reply::Int(b.len() as i128) } _ => Reply::Err } }
            }
            Command::StrLen(k) => if !self.visible(k) { Reply::Int(0) } else { match &self.keys[k.as_str()].0 { Val::Str(b) => Reply::Int(b.len() as i128), _ => Reply::Err } },
            _ => return None,
        })
    }

    /// the visible keyspace in the format of executor::snapshot
    fn snapshot(&self) -> Vec<String> {
        let vis: Vec<&String> = self.keys.keys().filter(|k| self.visible(k)).collect();
        let mut out = vec![format!("dbsize=:{}", vis.len())];
        for k in vis {
            let (v, d) = &self.keys[k.as_str()];
            let (ty, val) = match v { Val::Str(b) => ("+string".to_string(), format!("\"{}\"", String::from_utf8_lossy(b))), Val::Other(t, r) => (format!("+{}", t), r.to_string()) };
            let pttl = match d { None => -1, Some(d) => d - self.now };
            out.push(format!("{:?}: type {} value {} pttl :{}", k, ty, val, pttl));
        }
        out
    }
}

#[derive(Clone, Debug)]
enum Step { Cmd(Command), Clock(Clock, u64) }

fn step_text(s: &Step) -> String { match s { Step::Cmd(c) => cmd_text(c), Step::Clock(m, t) => format!("[clock -> {} via {}]", t, if *m == Clock::Active { "set_time" } else { "update_time_readonly" }) } }

const KEYS: [&str; 4] = ["a", "b", "c", "L"];

/// run the sequence on a fresh executor and a fresh model; first disagreement (index, observed, required)
fn run_seq(epoch_ms: i64, t0: u64, steps: &[Step]) -> Option<(usize, String, String)> {
    let mut ex = fresh(t0, epoch_ms);
    let mut m = Model { now: t0 as i128, epoch: epoch_ms as i128, keys: BTreeMap::new() };
    // a list and a hash live in the keyspace from the start (wrong-type operands); "L" is in the key pool, "H" is a bystander
    ex.execute(&Command::RPush("L".into(), vec![sds("x"), sds("y")]));
    ex.execute(&Command::HSet("H".into(), vec![(sds("f"), sds("v"))]));
    m.keys.insert("L".into(), (Val::Other("list", "[\"x\",\"y\"]"), None));
    m.keys.insert("H".into(), (Val::Other("hash", "{\"f\"=\"v\"}"), None));
    for (i, s) in steps.iter().enumerate() {
        match s {
            Step::Clock(mode, t) => { advance(&mut ex, *mode, *t); m.now = *t as i128; }
            Step::Cmd(c) => {
                let want = match m.apply(c) { Some(w) => w, None => continue };
                let got = match exec(&mut ex, c) { Ok(r) => r, Err(p) => return Some((i, format!("panic: {}", p), format!("reply {}", show_reply(&want)))) };
                let ok = match (&got, &want) { (RespValue::Error(_), Reply::Err) => true, (RespValue::Error(_), _) | (_, Reply::Err) => false, _ => show(&got) == show_reply(&want) };
                if !ok { return Some((i, format!("reply {}", show(&got)), format!("reply {}", show_reply(&want)))); }
            }
        }
        let (a, b) = (snapshot(&mut ex), m.snapshot());
        if a != b {
            let diff_got: Vec<String> = a.iter().filter(|l| !b.contains(l)).cloned().collect();
            let diff_want: Vec<String> = b.iter().filter(|l| !a.contains(l)).cloned().collect();
            return Some((i, format!("visible keyspace after the step: {}{}", diff_got.join(" | "), if diff_got.is_empty() { "(entries missing)" } else { "" }), format!("{}{}", diff_want.join(" | "), if diff_want.is_empty() { "(those entries absent)" } else { "" })));
        }
    }
    None
}

fn check(epoch_ms: i64, t0: u64, steps: &[Step], label: &str) -> Option<Found> {
    let (i, _, _) = run_seq(epoch_ms, t0, steps)?;
    // shrink: keep the failing step last, drop every earlier step that is not needed
    let mut min: Vec<Step> = steps[..=i].to_vec();
    let fails_at_end = |s: &[Step]| run_seq(epoch_ms, t0, s).map(|(j, _, _)| j == s.len() - 1).unwrap_or(false);
    let mut j = 0;
    while j + 1 < min.len() {
        let mut cand = min.clone(); cand.remove(j);
        if fails_at_end(&cand) { min = cand; } else { j += 1; }
    }
    let (_, got, want) = run_seq(epoch_ms, t0, &min)?;
    Some(Found { input: format!("{} (epoch_ms={}, clock starts at {}; keyspace starts with list L and hash H), shrunk to: {}", label, epoch_ms, t0, min.iter().map(step_text).collect::<Vec<_>>().join(" ; ")), observed: format!("after the last step: {}", got), required: format!("{} (Redis command documentation)", want) })
}

fn flag_sets() -> Vec<(bool, bool, bool, bool)> { vec![(false, false, false, false), (true, false, false, false), (false, true, false, false), (false, false, true, false), (false, false, false, true), (false, true, true, false), (false, true, false, true)] }

fn structured() -> Vec<(String, Vec<Step>)> {
    let mut out: Vec<(String, Vec<Step>)> = Vec::new();
    let set = |k: &str, v: &str| Step::Cmd(Command::set(k.to_string(), sds(v)));
    let probes = |k: &str| vec![Step::Cmd(Command::Ttl(k.into())), Step::Cmd(Command::Pttl(k.into())), Step::Cmd(Command::Get(k.into())), Step::Cmd(Command::PExpireTime(k.into())), Step::Cmd(Command::ExpireTime(k.into()))];
    // EXPIRE / PEXPIRE x flags x {persistent, volatile} x {negative, zero, smaller, equal, larger}
    for (nx, xx, gt, lt) in flag_sets() {
        for volatile in [false, true] {
            for amount in [-1i64, 0, 5, 10, 20] {
                for ms in [false, true] {
                    let mut s = vec![set("a", "v")];
                    if volatile { s.push(Step::Cmd(Command::PExpire { key: "a".into(), milliseconds: 10_000, nx: false, xx: false, gt: false, lt: false })); }
                    s.push(Step::Cmd(if ms { Command::PExpire { key: "a".into(), milliseconds: amount * 1000, nx, xx, gt, lt } } else { Command::Expire { key: "a".into(), seconds: amount, nx, xx, gt, lt } }));
                    s.extend(probes("a"));
                    out.push((format!("{} with flags on a {} key", if ms { "PEXPIRE" } else { "EXPIRE" }, if volatile { "volatile" } else { "persistent" }), s));
                }
            }
        }
    }
    // writes that must discard / keep the old TTL, on live and on expired-but-unpurged keys
    let writers: Vec<(&str, Command)> = vec![
        ("SET", Command::set("a".into(), sds("new"))), ("SET KEEPTTL", set_opts("a", "new", None, None, None, None, true)),
        ("SET XX", Command::Set { key: "a".into(), value: sds("new"), ex: None, px: None, exat: None, pxat: None, nx: false, xx: true, get: false, keepttl: false }),
        ("SET NX", Command::Set { key: "a".into(), value: sds("new"), ex: None, px: None, exat: None, pxat: None, nx: true, xx: false, get: false, keepttl: false }),
        ("SET GET", Command::Set { key: "a".into(), value: sds("new"), ex: None, px: None, exat: None, pxat: None, nx: false, xx: false, get: true, keepttl: false }),
        ("SET NX GET", Command::Set { key: "a".into(), value: sds("new"), ex: None, px: None, exat: None, pxat: None, nx: true, xx: false, get: true, keepttl: false }),
        ("SET PX", set_opts("a", "new", None, Some(700), None, None, false)), ("SET EX KEEPTTL-less", set_opts("a", "new", Some(3), None, None, None, false)),
        ("SETNX", Command::SetNx("a".into(), sds("new"))), ("GETSET", Command::GetSet("a".into(), sds("new"))),
        ("MSET", Command::MSet(vec![("a".into(), sds("new")), ("b".into(), sds("nb"))])), ("MSET dup", Command::MSet(vec![("a".into(), sds("n1")), ("a".into(), sds("n2"))])),
        ("MSETNX", Command::MSetNx(vec![("a".into(), sds("new")), ("b".into(), sds("nb"))])), ("MSETNX other", Command::MSetNx(vec![("b".into(), sds("nb")), ("c".into(), sds("nc"))])),
        ("BATCHSET", Command::BatchSet(vec![("a".into(), sds("new"))])), ("GETEX", Command::GetEx { key: "a".into(), ex: None, px: None, exat: None, pxat: None, persist: false }),
        ("GETEX PERSIST", Command::GetEx { key: "a".into(), ex: None, px: None, exat: None, pxat: None, persist: true }), ("GETEX PX", Command::GetEx { key: "a".into(), ex: None, px: Some(50), exat: None, pxat: None, persist: false }),
        ("GETEX EX 0", Command::GetEx { key: "a".into(), ex: Some(0), px: None, exat: None, pxat: None, persist: false }),
        ("GETDEL", Command::GetDel("a".into())), ("APPEND", Command::Append("a".into(), sds("+"))), ("PERSIST", Command::Persist("a".into())),
        ("EXPIRE", Command::Expire { key: "a".into(), seconds: 9, nx: false, xx: false, gt: false, lt: false }), ("PEXPIRE GT", Command::PExpire { key: "a".into(), milliseconds: 9000, nx: false, xx: false, gt: true, lt: false }),
    ];
    for (name, w) in &writers {
        for (state, mode, t) in [("live with a TTL", Clock::Lazy, 1500u64), ("expired but not purged", Clock::Lazy, 2000), ("expired but not purged", Clock::Lazy, 2001), ("expired and purged", Clock::Active, 2000), ("one ms before its deadline", Clock::Active, 1999)] {
            let mut s = vec![Step::Cmd(set_opts("a", "old", None, Some(1000), None, None, false)), Step::Clock(mode, t), Step::Cmd(w.clone())];
            s.extend(probes("a"));
            s.push(Step::Clock(mode, t + 5000));
            s.extend(probes("a"));
            out.push((format!("{} on a key that is {}", name, state), s));
        }
        let mut s = vec![set("a", "old"), Step::Cmd(w.clone())]; s.extend(probes("a"));
        out.push((format!("{} on a persistent key", name), s));
        let mut s = vec![Step::Cmd(w.clone())]; s.extend(probes("a"));
        out.push((format!("{} on a missing key", name), s));
        // the same writer aimed at the list key (wrong type where the command reads the old value)
        let to_l = |c: &Command| -> Option<Command> { Some(match c { Command::Set { value, ex, px, exat, pxat, nx, xx, get, keepttl, .. } => Command::Set { key: "L".into(), value: value.clone(), ex: *ex, px: *px, exat: *exat, pxat: *pxat, nx: *nx, xx: *xx, get: *get, keepttl: *keepttl }, Command::GetSet(_, v) => Command::GetSet("L".into(), v.clone()), Command::GetDel(_) => Command::GetDel("L".into()), Command::GetEx { ex, px, exat, pxat, persist, .. } => Command::GetEx { key: "L".into(), ex: *ex, px: *px, exat: *exat, pxat: *pxat, persist: *persist }, Command::SetNx(_, v) => Command::SetNx("L".into(), v.clone()), Command::Append(_, v) => Command::Append("L".into(), v.clone()), _ => return None }) };
        if let Some(c) = to_l(w) { out.push((format!("{} on a list key", name), vec![Step::Cmd(Command::PExpire { key: "L".into(), milliseconds: 5000, nx: false, xx: false, gt: false, lt: false }), Step::Cmd(c), Step::Cmd(Command::Pttl("L".into()))])); }
    }
    // absolute deadlines in the past / present / future; invalid times
    for (name, c) in [
        ("EXPIREAT past", Command::ExpireAt("a".into(), 1)), ("PEXPIREAT now", Command::PExpireAt("a".into(), 1_700_000_000_000 + 1000)), ("PEXPIREAT now+1", Command::PExpireAt("a".into(), 1_700_000_000_000 + 1001)),
        ("EXPIREAT future", Command::ExpireAt("a".into(), 1_700_000_100)), ("PEXPIREAT min", Command::PExpireAt("a".into(), i64::MIN)), ("PEXPIREAT max", Command::PExpireAt("a".into(), i64::MAX)),
        ("EXPIRE huge", Command::Expire { key: "a".into(), seconds: 9223372036854775, nx: false, xx: false, gt: false, lt: false }), ("EXPIRE too big", Command::Expire { key: "a".into(), seconds: 9223372036854776, nx: false, xx: false, gt: false, lt: false }),
        ("EXPIRE i64::MIN", Command::Expire { key: "a".into(), seconds: i64::MIN, nx: false, xx: false, gt: false, lt: false }), ("PEXPIRE i64::MAX", Command::PExpire { key: "a".into(), milliseconds: i64::MAX, nx: false, xx: false, gt: false, lt: false }),
        ("PEXPIRE max valid", Command::PExpire { key: "a".into(), milliseconds: i64::MAX - 1_700_000_000_000 - 1000, nx: false, xx: false, gt: false, lt: false }), ("PEXPIRE most negative accepted", Command::PExpire { key: "a".into(), milliseconds: i64::MIN / 2, nx: false, xx: false, gt: false, lt: false }),
        ("SET EX 0", set_opts("a", "n", Some(0), None, None, None, false)), ("SET PX -1", set_opts("a", "n", None, Some(-1), None, None, false)), ("SET EXAT 0", set_opts("a", "n", None, None, Some(0), None, false)), ("SET PXAT past", set_opts("a", "n", None, None, None, Some(5), false)),
        ("SET EXAT future", set_opts("a", "n", None, None, Some(1_700_000_100), None, false)), ("SET PXAT now", set_opts("a", "n", None, None, None, Some(1_700_000_000_000 + 1000), false)), ("SET EX too big", set_opts("a", "n", Some(9223372036854776), None, None, None, false)),
        ("GETEX PXAT past", Command::GetEx { key: "a".into(), ex: None, px: None, exat: None, pxat: Some(5), persist: false }), ("GETEX EXAT future", Command::GetEx { key: "a".into(), ex: None, px: None, exat: Some(1_700_000_100), pxat: None, persist: false }),
    ] {
        let mut s = vec![set("a", "v"), Step::Cmd(c)]; s.extend(probes("a"));
        out.push((name.to_string(), s));
    }
    out
}

fn random_steps(rng: &mut Rng, t0: u64, epoch_ms: i64) -> Vec<Step> {
    let mut now = t0;
    let mut deadlines: Vec<u64> = Vec::new();
    let mut steps = Vec::new();
    let mode_pref = rng.below(3); // 0 active, 1 lazy, 2 mixed
    let n = 15 + rng.below(40);
    for i in 0..n {
        let k = rng.pick(&KEYS).to_string();
        let v = format!("v{}", i);
        let fl = *rng.pick(&flag_sets());
        let rel_ms: i64 = match rng.below(8) { 0 => 0, 1 => -(rng.below(2000) as i64) - 1, 2 => 1, _ => 1 + rng.below(5000) as i64 };
        let abs_ms: i64 = epoch_ms + now as i64 + match rng.below(5) { 0 => 0, 1 => -(rng.below(3000) as i64), _ => rng.below(5000) as i64 };
        let pairs = |rng: &mut Rng| -> Vec<(String, SDS)> { (0..1 + rng.below(3)).map(|j| (rng.pick(&KEYS).to_string(), sds(&format!("m{}_{}", i, j)))).collect() };
        let c = match rng.below(30) {
            0 | 1 => Command::Expire { key: k, seconds: rel_ms / 1000 + if rng.chance(1, 2) { 1 } else { 0 }, nx: fl.0, xx: fl.1, gt: fl.2, lt: fl.3 },
            2 | 3 | 4 => Command::PExpire { key: k, milliseconds: rel_ms, nx: fl.0, xx: fl.1, gt: fl.2, lt: fl.3 },
            5 => Command::ExpireAt(k, abs_ms / 1000),
            6 => Command::PExpireAt(k, abs_ms),
            7 => Command::Ttl(k), 8 => Command::Pttl(k), 9 => Command::ExpireTime(k), 10 => Command::PExpireTime(k),
            11 => Command::Persist(k),
            12 | 13 | 14 | 15 => {
                let (ex, px, exat, pxat) = match rng.below(7) { 0 => (Some(rel_ms / 1000 + 1), None, None, None), 1 => (None, Some(rel_ms), None, None), 2 => (None, None, Some(abs_ms / 1000), None), 3 => (None, None, None, Some(abs_ms)), _ => (None, None, None, None) };
                let keepttl = ex.is_none() && px.is_none() && exat.is_none() && pxat.is_none() && rng.chance(1, 3);
                let (nx, xx) = match rng.below(5) { 0 => (true, false), 1 => (false, true), _ => (false, false) };
                Command::Set { key: k, value: sds(&v), ex, px, exat, pxat, nx, xx, get: rng.chance(1, 4), keepttl }
            }
            16 => Command::SetNx(k, sds(&v)),
            17 => Command::GetSet(k, sds(&v)),
            18 | 19 => { let (ex, px, exat, pxat, persist) = match rng.below(6) { 0 => (Some(rel_ms / 1000 + 1), None, None, None, false), 1 => (None, Some(rel_ms), None, None, false), 2 => (None, None, Some(abs_ms / 1000), None, false), 3 => (None, None, None, Some(abs_ms), false), 4 => (None, None, None, None, true), _ => (None, None, None, None, false) }; Command::GetEx { key: k, ex, px, exat, pxat, persist } }
            20 => Command::GetDel(k),
            21 => Command::MSet(pairs(rng)), 22 => Command::MSetNx(pairs(rng)), 23 => Command::BatchSet(pairs(rng)),
            24 => Command::Get(k), 25 => Command::Append(k, sds("+")), 26 => Command::Exists(vec![k, rng.pick(&KEYS).to_string()]), 27 => Command::StrLen(k),
            _ => {
                // clock advance: to a deadline boundary of something set earlier, or by a random amount
                let target = if !deadlines.is_empty() && rng.chance(2, 3) { let d = *rng.pick(&deadlines); match rng.below(3) { 0 => d.saturating_sub(1), 1 => d, _ => d + 1 } } else { now + rng.below(3000) };
                if target > now { now = target; }
                let mode = match mode_pref { 0 => Clock::Active, 1 => Clock::Lazy, _ => if rng.chance(1, 2) { Clock::Active } else { Clock::Lazy } };
                steps.push(Step::Clock(mode, now));
                continue;
            }
        };
        // remember plausible deadlines so that later clock moves land on their boundaries
        match &c {
            Command::Expire { seconds, .. } if *seconds > 0 => deadlines.push(now + *seconds as u64 * 1000),
            Command::PExpire { milliseconds, .. } if *milliseconds > 0 => deadlines.push(now + *milliseconds as u64),
            Command::Set { px: Some(p), .. } | Command::GetEx { px: Some(p), .. } if *p > 0 => deadlines.push(now + *p as u64),
            Command::Set { ex: Some(s), .. } | Command::GetEx { ex: Some(s), .. } if *s > 0 => deadlines.push(now + *s as u64 * 1000),
            Command::PExpireAt(_, t) | Command::Set { pxat: Some(t), .. } | Command::GetEx { pxat: Some(t), .. } if *t > epoch_ms => deadlines.push((*t - epoch_ms) as u64),
            Command::ExpireAt(_, t) | Command::Set { exat: Some(t), .. } | Command::GetEx { exat: Some(t), .. } if *t * 1000 > epoch_ms => deadlines.push((*t * 1000 - epoch_ms) as u64),
            _ => {}
        }
        steps.push(Step::Cmd(c));
    }
    steps
}

pub fn search(_pid: &str, oid: &str, seed: u64) -> Option<Found> {
    // the witness family of the refuted function first: ".../CommandExecutor::execute_mset/..." -> the "MSET ..." scenarios
    let cmd = oid.split("execute_").nth(1).map(|r| r.split('/').next().unwrap_or("").to_uppercase()).unwrap_or_default();
    let cmd = match cmd.as_str() { "BATCH_SET" => "BATCHSET".to_string(), "TTL" | "PTTL" | "EXPIRETIME" | "PEXPIRETIME" => "EXPIRE".to_string(), c => c.to_string() };
    if !cmd.is_empty() {
        for (label, steps) in structured().into_iter().filter(|(l, _)| l.starts_with(&cmd)) {
            if let Some(f) = check(1_700_000_000_000, 1000, &steps, &label) { return Some(f); }
        }
    }
    for (label, steps) in structured() {
        if let Some(f) = check(1_700_000_000_000, 1000, &steps, &label) { return Some(f); }
    }
    for (label, steps) in structured().into_iter().take(160) {
        if let Some(f) = check(0, 1000, &steps.into_iter().filter(|s| !matches!(s, Step::Cmd(Command::PExpireAt(..)) | Step::Cmd(Command::ExpireAt(..)))).collect::<Vec<_>>(), &label) { return Some(f); }
    }
    let mut rng = Rng::new(seed + 101);
    for it in 0..4000u64 {
        let epoch_ms = *rng.pick(&[1_700_000_000_000i64, 0, 1_700_000_000_123]);
        let t0 = *rng.pick(&[0u64, 1000, 12_345]);
        let steps = random_steps(&mut rng, t0, epoch_ms);
        if let Some(f) = check(epoch_ms, t0, &steps, &format!("random sequence {} (seed {})", it, seed)) { return Some(f); }
    }
    None
}
