//! Unit `zset_container` (C01): the real sorted-set container `RedisSortedSet` (src/redis/data/sorted_set.rs) and, through it, the
//! real arena skip list (src/redis/data/skiplist.rs: insert / remove_with_score / rank / range / rev_range / iter with the real
//! level generator) against an ORACLE written from the Redis documentation: a score table BTreeMap<member bytes, f64> and the
//! order "score ascending, equal scores by member bytes (memcmp)".
//!   after EVERY operation: the return value (add: true iff new; remove: true iff present; score; rank = 0-based position;
//!   range / rev_range with the Redis index rules - negative indexes from the end, clamping, start > stop or start >= len => empty;
//!   count_in_range / range_by_score with inclusive / exclusive / infinite bounds and LIMIT offset count) and the WHOLE state
//!   (len, skiplist_len, is_empty, is_sorted, range(0,-1), rev_range(0,-1), iter(), score and rank of every member) equal the oracle.
//! Scores never are NaN in the default battery (the container's contract excludes them; Redis rejects them at the parser).
//! On request (obligation id mentioning `nan`, or VERIF_ZSET_NAN=1): the same battery with NaN scores entering through `add`.
//! Not part of the default battery (the Redis documentation does not pin it down): LIMIT with a negative offset.
use crate::rng::Rng;
use crate::Found;
use redis_sim::redis::{RedisSortedSet, SDS};
use std::collections::BTreeMap;
use std::panic::{catch_unwind, AssertUnwindSafe};

type Bytes = Vec<u8>;

fn esc(b: &[u8]) -> String {
    let mut o = String::from("\"");
    for &c in b { if (0x20..0x7f).contains(&c) && c != b'"' && c != b'\\' { o.push(c as char); } else { o.push_str(&format!("\\x{:02x}", c)); } }
    o.push('"');
    o
}
fn sds(b: &[u8]) -> SDS { SDS::new(b.to_vec()) }
fn caught<T>(f: impl FnOnce() -> T) -> Result<T, String> {
    catch_unwind(AssertUnwindSafe(f)).map_err(|e| e.downcast_ref::<String>().cloned().or_else(|| e.downcast_ref::<&str>().map(|s| s.to_string())).unwrap_or_default())
}
// scores are compared as bit patterns in the whole-state check (the stored score is the one given), as values in replies
fn ftxt(x: f64) -> String { if x == 0.0 && x.is_sign_negative() { "-0.0".to_string() } else { format!("{:?}", x) } }
fn pairs_txt(v: &[(Bytes, f64)]) -> String { format!("[{}]", v.iter().map(|(m, s)| format!("{}:{}", esc(m), ftxt(*s))).collect::<Vec<_>>().join(", ")) }
fn same_pairs(a: &[(Bytes, f64)], b: &[(Bytes, f64)]) -> bool { a.len() == b.len() && a.iter().zip(b).all(|(x, y)| x.0 == y.0 && x.1.to_bits() == y.1.to_bits()) }

#[derive(Clone, Debug)]
enum Op {
    Add(Bytes, f64), Remove(Bytes), Score(Bytes), Rank(Bytes), Range(isize, isize), RevRange(isize, isize),
    Count(String, String), ByScore(String, String, bool, Option<(isize, usize)>),
}
fn op_text(o: &Op) -> String {
    match o {
        Op::Add(m, s) => format!("add({}, {})", esc(m), ftxt(*s)),
        Op::Remove(m) => format!("remove({})", esc(m)),
        Op::Score(m) => format!("score({})", esc(m)),
        Op::Rank(m) => format!("rank({})", esc(m)),
        Op::Range(a, b) => format!("range({}, {})", a, b),
        Op::RevRange(a, b) => format!("rev_range({}, {})", a, b),
        Op::Count(a, b) => format!("count_in_range({:?}, {:?})", a, b),
        Op::ByScore(a, b, w, l) => format!("range_by_score({:?}, {:?}, {}, {:?})", a, b, w, l),
    }
}

// ---------------------------------------------------------------- the oracle ----------------------------------------------------------------
#[derive(Default)]
struct Oracle { table: BTreeMap<Bytes, f64> }
impl Oracle {
    /// "elements are ordered from the lowest to the highest score; elements with the same score are ordered lexicographically"
    fn order(&self) -> Vec<(Bytes, f64)> {
        let mut v: Vec<(Bytes, f64)> = self.table.iter().map(|(m, s)| (m.clone(), *s)).collect();
        // BTreeMap iteration is already by member bytes; a stable sort by score keeps that order among equal scores
        v.sort_by(|a, b| a.1.partial_cmp(&b.1).unwrap_or(std::cmp::Ordering::Equal));
        v
    }
    /// ZADD: 1 iff the member is new; the score of an existing member is updated (an equal score is no update)
    fn add(&mut self, m: &[u8], s: f64) -> bool {
        match self.table.get_mut(m) {
            Some(cur) => { if *cur != s { *cur = s; } false }
            None => { self.table.insert(m.to_vec(), s); true }
        }
    }
    /// ZRANGE index rules (documentation text in contracts/zset_container/unit.vt, o_range)
    fn window(l: &[(Bytes, f64)], start: isize, stop: isize) -> Vec<(Bytes, f64)> {
        let len = l.len() as i128;
        let s = if start < 0 { (len + start as i128).max(0) } else { start as i128 };
        let e = if stop < 0 { len + stop as i128 } else { (stop as i128).min(len - 1) };
        if s > e || s >= len { Vec::new() } else { l[s as usize..=e as usize].to_vec() }
    }
    /// ZRANGEBYSCORE bounds: "-inf" / "+inf", a number = inclusive, "(number" = exclusive
    fn bound(t: &str) -> (f64, bool) {
        let (ex, num) = if let Some(r) = t.strip_prefix('(') { (true, r) } else { (false, t) };
        let v = match num { "-inf" => f64::NEG_INFINITY, "+inf" | "inf" => f64::INFINITY, n => n.parse::<f64>().expect("the driver only writes well-formed bounds") };
        (v, ex)
    }
    fn by_score(&self, min: &str, max: &str) -> Vec<(Bytes, f64)> {
        let (lo, lo_ex) = Self::bound(min);
        let (hi, hi_ex) = Self::bound(max);
        self.order().into_iter().filter(|(_, s)| (if lo_ex { *s > lo } else { *s >= lo }) && (if hi_ex { *s < hi } else { *s <= hi })).collect()
    }
}

fn real_pairs(v: Vec<(SDS, f64)>) -> Vec<(Bytes, f64)> { v.into_iter().map(|(m, s)| (m.as_bytes().to_vec(), s)).collect() }

/// run the operations on a fresh RedisSortedSet and a fresh oracle; first disagreement = (index, observed, required)
fn run(ops: &[Op]) -> Option<(usize, String, String)> {
    let mut real = RedisSortedSet::new();
    let mut orc = Oracle::default();
    for (i, op) in ops.iter().enumerate() {
        let ord0 = orc.order();
        let bad: Option<(String, String)> = match op {
            Op::Add(m, s) => {
                let want = orc.add(m, *s);
                match caught(|| real.add(sds(m), *s)) { Err(p) => Some((format!("panic: {}", p), format!("{}", want))), Ok(g) if g != want => Some((format!("returned {}", g), format!("{}", want))), _ => None }
            }
            Op::Remove(m) => {
                let want = orc.table.remove(m).is_some();
                match caught(|| real.remove(&sds(m))) { Err(p) => Some((format!("panic: {}", p), format!("{}", want))), Ok(g) if g != want => Some((format!("returned {}", g), format!("{}", want))), _ => None }
            }
            Op::Score(m) => {
                let want = orc.table.get(m).copied();
                let g = real.score(&sds(m));
                if g.map(f64::to_bits) != want.map(f64::to_bits) { Some((format!("{:?}", g), format!("{:?}", want))) } else { None }
            }
            Op::Rank(m) => {
                let want = ord0.iter().position(|(x, _)| x == m);
                match caught(|| real.rank(&sds(m))) { Err(p) => Some((format!("panic: {}", p), format!("{:?}", want))), Ok(g) if g != want => Some((format!("{:?}", g), format!("{:?} (order {})", want, pairs_txt(&ord0)))), _ => None }
            }
            Op::Range(a, b) => {
                let want = Oracle::window(&ord0, *a, *b);
                match caught(|| real_pairs(real.range(*a, *b))) { Err(p) => Some((format!("panic: {}", p), pairs_txt(&want))), Ok(g) if !same_pairs(&g, &want) => Some((pairs_txt(&g), format!("{} (order {})", pairs_txt(&want), pairs_txt(&ord0)))), _ => None }
            }
            Op::RevRange(a, b) => {
                let mut rev = ord0.clone(); rev.reverse();
                let want = Oracle::window(&rev, *a, *b);
                match caught(|| real_pairs(real.rev_range(*a, *b))) { Err(p) => Some((format!("panic: {}", p), pairs_txt(&want))), Ok(g) if !same_pairs(&g, &want) => Some((pairs_txt(&g), format!("{} (order {})", pairs_txt(&want), pairs_txt(&ord0)))), _ => None }
            }
            Op::Count(a, b) => {
                let want = orc.by_score(a, b).len();
                match caught(|| real.count_in_range(a, b)) { Err(p) => Some((format!("panic: {}", p), format!("Ok({})", want))), Ok(g) if g != Ok(want) => Some((format!("{:?}", g), format!("Ok({}) (order {})", want, pairs_txt(&ord0)))), _ => None }
            }
            Op::ByScore(a, b, ws, lim) => {
                let mut want = orc.by_score(a, b);
                if let Some((off, cnt)) = lim { want = want.into_iter().skip(*off as usize).take(*cnt).collect(); }
                match caught(|| real.range_by_score(a, b, *ws, *lim)) {
                    Err(p) => Some((format!("panic: {}", p), pairs_txt(&want))),
                    Ok(Err(e)) => Some((format!("Err({:?})", e), pairs_txt(&want))),
                    Ok(Ok(g)) => {
                        let ok = g.len() == want.len() && g.iter().zip(&want).all(|((m, s), (wm, wsc))| m.as_bytes() == &wm[..] && (if *ws { s.map(f64::to_bits) == Some(wsc.to_bits()) } else { s.is_none() }));
                        if ok { None } else { Some((format!("{:?}", g.iter().map(|(m, s)| (esc(m.as_bytes()), *s)).collect::<Vec<_>>()), format!("{} (order {})", pairs_txt(&want), pairs_txt(&ord0)))) }
                    }
                }
            }
        };
        if let Some((o, r)) = bad { return Some((i, o, r)); }
        // ---- the whole state after the operation
        let ord = orc.order();
        let whole = caught(|| {
            let fwd = real_pairs(real.range(0, -1));
            let mut bwd = real_pairs(real.rev_range(0, -1)); bwd.reverse();
            let it: Vec<(Bytes, f64)> = real.iter().map(|(m, s)| (m.to_vec(), s)).collect();
            (fwd, bwd, it, real.len(), real.skiplist_len(), real.is_empty(), real.is_sorted())
        });
        match whole {
            Err(p) => return Some((i, format!("afterwards: panic: {}", p), format!("order {}", pairs_txt(&ord)))),
            Ok((fwd, bwd, it, len, sl_len, empty, sorted)) => {
                if !same_pairs(&fwd, &ord) || !same_pairs(&bwd, &ord) || !same_pairs(&it, &ord) || len != ord.len() || sl_len != ord.len() || empty != ord.is_empty() || !sorted {
                    return Some((i, format!("afterwards range(0,-1) = {}, reversed rev_range(0,-1) = {}, iter() = {}, len() = {}, skiplist_len() = {}, is_empty() = {}, is_sorted() = {}", pairs_txt(&fwd), pairs_txt(&bwd), pairs_txt(&it), len, sl_len, empty, sorted),
                        format!("all three sequences {} ({} members), sorted", pairs_txt(&ord), ord.len())));
                }
            }
        }
        for (k, (m, s)) in ord.iter().enumerate() {
            let sc = real.score(&sds(m));
            let rk = caught(|| real.rank(&sds(m)));
            if sc.map(f64::to_bits) != Some(s.to_bits()) || rk != Ok(Some(k)) {
                return Some((i, format!("afterwards score({}) = {:?}, rank = {:?}", esc(m), sc, rk), format!("score {} rank {} (order {})", ftxt(*s), k, pairs_txt(&ord))));
            }
        }
    }
    None
}

// ---------------------------------------------------------------- generators ----------------------------------------------------------------
fn member_pool() -> Vec<Bytes> {
    vec![vec![], vec![0], vec![0, 0], vec![0xff], vec![0xfe], vec![0x7f], vec![0x80], b"a".to_vec(), b"A".to_vec(), b"aa".to_vec(), b"ab".to_vec(), b"a\0".to_vec(), b"b".to_vec(),
         b"ba".to_vec(), vec![0xc3, 0xa9], vec![0xef, 0xbf, 0xbd], b"10".to_vec(), b"9".to_vec(), b"apple".to_vec(), b"apple pie".to_vec(), b"zebra".to_vec()]
}
const SCORES: [f64; 14] = [f64::NEG_INFINITY, -1e300, -2.5, -1.0, -1e-300, -0.0, 0.0, 1e-300, 1.0, 1.0000000000000002, 2.5, 100.0, 1e300, f64::INFINITY];
fn pick_member(rng: &mut Rng, pool: &[Bytes], wide: bool) -> Bytes {
    if wide { let n = rng.below(400); return format!("m{}", n).into_bytes(); }
    if rng.chance(1, 8) { let n = rng.below(3) as usize; (0..n).map(|_| *rng.pick(&[0u8, 1, 0x61, 0x62, 0x7f, 0x80, 0xff])).collect() } else { rng.pick(pool).clone() }
}
fn pick_score(rng: &mut Rng, nan: bool) -> f64 {
    if nan && rng.chance(1, 5) { return f64::NAN; }
    if rng.chance(1, 3) { (rng.below(7) as f64) - 3.0 } else { *rng.pick(&SCORES) }
}
fn pick_index(rng: &mut Rng, n: usize) -> isize {
    let n = n as isize;
    match rng.below(8) { 0 => isize::MIN, 1 => isize::MAX, 2 => -n - 1, 3 => n, 4 => -1, 5 => 0, _ => rng.below((2 * n + 5) as u64) as isize - n - 2 }
}
fn pick_bound(rng: &mut Rng) -> String {
    let base = match rng.below(6) { 0 => "-inf".to_string(), 1 => "+inf".to_string(), 2 => "inf".to_string(), _ => { let s = pick_score(rng, false); if s.is_infinite() { if s > 0.0 { "inf".to_string() } else { "-inf".to_string() } } else { format!("{:?}", s) } } };
    if rng.chance(1, 3) { format!("({}", base) } else { base }
}
fn gen_ops(rng: &mut Rng, n: usize, wide: bool, nan: bool) -> Vec<Op> {
    let pool = member_pool();
    let mut ops = Vec::new();
    let mut size_hint = 0usize;
    for _ in 0..n {
        let m = pick_member(rng, &pool, wide);
        ops.push(match rng.below(if wide { 12 } else { 16 }) {
            0..=5 => { size_hint += 1; Op::Add(m, pick_score(rng, nan)) }
            6..=7 => Op::Remove(m),
            8 => Op::Score(m),
            9 => Op::Rank(m),
            10 => Op::Range(pick_index(rng, size_hint.min(25)), pick_index(rng, size_hint.min(25))),
            11 => Op::RevRange(pick_index(rng, size_hint.min(25)), pick_index(rng, size_hint.min(25))),
            12 | 13 => Op::Count(pick_bound(rng), pick_bound(rng)),
            _ => Op::ByScore(pick_bound(rng), pick_bound(rng), rng.chance(1, 2), if rng.chance(1, 2) { Some((rng.below(4) as isize, *rng.pick(&[0usize, 1, 2, 5, usize::MAX]))) } else { None }),
        });
    }
    ops
}
/// shrink a failing sequence: drop operations one at a time while it still fails
fn shrink(mut ops: Vec<Op>) -> Vec<Op> {
    if let Some((i, _, _)) = run(&ops) { ops.truncate(i + 1); }
    let mut k = 0;
    while k < ops.len() {
        let mut t = ops.clone();
        t.remove(k);
        if run(&t).is_some() { ops = t; } else { k += 1; }
    }
    ops
}

pub fn search(_pid: &str, oid: &str, seed: u64) -> Option<Found> {
    let nan = oid.to_lowercase().contains("nan") || std::env::var("VERIF_ZSET_NAN").map(|v| v == "1").unwrap_or(false);
    let mut rng = Rng::new(seed ^ 0x5a5e7c0);
    // fixed scenarios first: tie order, both zeros, update that moves an element across the list, negative indexes
    let fixed: Vec<Vec<Op>> = vec![
        vec![Op::Add(b"zebra".to_vec(), 1.0), Op::Add(b"apple".to_vec(), 1.0), Op::Add(b"apple pie".to_vec(), 1.0), Op::Add(vec![], 1.0), Op::Add(vec![0xff], 1.0), Op::Range(0, -1), Op::RevRange(0, -1), Op::Rank(b"apple pie".to_vec())],
        vec![Op::Add(b"a".to_vec(), 0.0), Op::Add(b"b".to_vec(), -0.0), Op::Add(b"a".to_vec(), -0.0), Op::Score(b"a".to_vec()), Op::Range(0, -1), Op::Count("0".to_string(), "(0".to_string()), Op::Count("-0".to_string(), "0".to_string())],
        vec![Op::Add(b"a".to_vec(), 1.0), Op::Add(b"b".to_vec(), 2.0), Op::Add(b"c".to_vec(), 3.0), Op::Add(b"a".to_vec(), 4.0), Op::Rank(b"a".to_vec()), Op::Add(b"c".to_vec(), f64::NEG_INFINITY), Op::Rank(b"c".to_vec()), Op::Remove(b"b".to_vec()), Op::Range(-2, -1), Op::Range(isize::MIN, isize::MAX), Op::RevRange(-1, -1), Op::Range(1, 0), Op::Range(2, 5), Op::Range(-100, 0)],
        vec![Op::Add(b"a".to_vec(), f64::INFINITY), Op::Add(b"b".to_vec(), f64::INFINITY), Op::Add(b"c".to_vec(), f64::NEG_INFINITY), Op::Count("-inf".to_string(), "+inf".to_string()), Op::Count("(-inf".to_string(), "(inf".to_string()), Op::ByScore("-inf".to_string(), "inf".to_string(), true, Some((1, 1))), Op::Remove(b"a".to_vec()), Op::Remove(b"a".to_vec()), Op::Remove(b"b".to_vec()), Op::Remove(b"c".to_vec()), Op::Range(0, -1)],
    ];
    let mut batteries: Vec<Vec<Op>> = fixed;
    for _ in 0..60 { let n = 5 + rng.below(60) as usize; batteries.push(gen_ops(&mut rng, n, false, nan)); }
    // long runs over a wide member space: towers of several levels, slot reuse after removals
    for _ in 0..4 { batteries.push(gen_ops(&mut rng, 700, true, nan)); }
    if nan { batteries.insert(0, vec![Op::Add(b"a".to_vec(), f64::NAN), Op::Add(b"a".to_vec(), f64::NAN), Op::Range(0, -1)]); }
    for ops in batteries {
        if run(&ops).is_some() {
            let small = shrink(ops);
            let (i, observed, required) = run(&small).expect("shrinking keeps the failure");
            let text = small.iter().map(op_text).collect::<Vec<_>>().join("; ");
            return Some(Found {
                input: format!("RedisSortedSet::new(); {}", text),
                observed: format!("operation #{} {}: {}", i + 1, op_text(&small[i]), observed),
                required: required,
            });
        }
    }
    None
}
