//! Unit `resp_codec`: totality, no over-read, buffer discipline, prefix-stability and re-decoding of both RESP decoders.
use crate::rng::Rng;
use crate::Found;
use bytes::BytesMut;
use redis_sim::redis::{RespCodec, RespParser};
use std::panic::{catch_unwind, AssertUnwindSafe};

fn show(b: &[u8]) -> String { String::from_utf8_lossy(b).replace('\r', "\\r").replace('\n', "\\n") }

fn corpus(rng: &mut Rng, n: u64) -> Vec<Vec<u8>> {
    let base: Vec<&[u8]> = vec![
        b"+OK\r\n", b"-ERR x\r\n", b":123\r\n", b":-7\r\n", b"$0\r\n\r\n", b"$3\r\nabc\r\n", b"$-1\r\n", b"*0\r\n", b"*-1\r\n",
        b"*2\r\n$3\r\nGET\r\n$1\r\nk\r\n", b"*3\r\n$3\r\nSET\r\n$1\r\nk\r\n$0\r\n\r\n", b"*3\r\n$3\r\nSET\r\n$1\r\nk\r\n$0\r\n\r\n*2\r\n$3\r\nGET\r\n$1\r\nk\r\n",
        b"*2\r\n*1\r\n:1\r\n*0\r\n", b"*1\r\n$0\r\n\r\n", b"$0\r\n\r\n+OK\r\n",
        b"$-2\r\n", b"*-5\r\n", b"*9223372036854775807\r\n", b"$9223372036854775807\r\n", b"$18446744073709551615\r\n", b"$99999999999999999999\r\n",
        b"+\r\n", b"-\r\n", b"*1\r\n+\r\n", b"*2\r\n+\r\n-\r\n", b"*1\r\n*1\r\n+\r\n", b"*3\r\n+\r\n:1\r\n-\r\n", b"*1\r\n:\r\n",
        b"$5\r\nab", b":\r\n", b"x", b"", b"\r\n", b"$\r\n", b"*\r\n", b"$3\r\nabcde", b"*2\r\n$1\r\na\r\n", b"$1\r\nab\r\n", b"+\r", b"$2\r\nab\rX",
    ];
    let mut out: Vec<Vec<u8>> = base.iter().map(|b| b.to_vec()).collect();
    let alphabet = b"+-:$*\r\n0123456789a";
    for _ in 0..n {
        let mut s = rng.pick(&base).to_vec();
        match rng.below(4) {
            0 => { if !s.is_empty() { let i = rng.below(s.len() as u64) as usize; s[i] = *rng.pick(alphabet); } }
            1 => { let t = rng.pick(&base).to_vec(); s.extend_from_slice(&t); }
            2 => { let l = rng.below(s.len() as u64 + 1) as usize; s.truncate(l); }
            _ => { let l = rng.below(12) as usize; s = (0..l).map(|_| *rng.pick(alphabet)).collect(); }
        }
        out.push(s);
    }
    out
}

enum Out { Frame(String, usize), NeedMore, Error, Panic(String) }

fn codec(input: &[u8]) -> (Out, bool) {
    let mut buf = BytesMut::from(input);
    let r = catch_unwind(AssertUnwindSafe(|| RespCodec::parse(&mut buf)));
    match r {
        Err(e) => (Out::Panic(e.downcast_ref::<String>().cloned().or_else(|| e.downcast_ref::<&str>().map(|s| s.to_string())).unwrap_or_default()), true),
        Ok(Ok(Some(v))) => { let n = input.len() - buf.len(); let ok = n > 0 && n <= input.len() && &input[n..] == &buf[..]; (Out::Frame(format!("{:?}", v), n), ok) }
        Ok(Ok(None)) => (Out::NeedMore, &buf[..] == input),
        Ok(Err(_)) => (Out::Error, &buf[..] == input),
    }
}

pub fn search(_pid: &str, _oid: &str, seed: u64) -> Option<Found> {
    let mut rng = Rng::new(seed + 7);
    for s in corpus(&mut rng, 4000) {
        // every prefix: total, disciplined
        for cut in 0..=s.len() {
            let p = &s[..cut];
            let (o, disciplined) = codec(p);
            if let Out::Panic(m) = &o { return Some(Found { input: show(p), observed: format!("RespCodec::parse panicked: {}", m), required: "a value, need-more or a protocol error; never a panic".into() }); }
            if !disciplined { return Some(Found { input: show(p), observed: "buffer not advanced by exactly one frame / touched without a frame".into(), required: "Ok(Some) removes exactly the frame, otherwise the buffer is untouched".into() }); }
            let pr = catch_unwind(|| RespParser::parse(p));
            match &pr {
                Err(_) => return Some(Found { input: show(p), observed: "RespParser::parse panicked".into(), required: "never a panic".into() }),
                Ok(Ok((_, n))) if *n == 0 || *n > p.len() => return Some(Found { input: show(p), observed: format!("RespParser consumed {} of {}", n, p.len()), required: "0 < n <= len".into() }),
                _ => {}
            }
            // the two decoders read the same grammar (unit resp_spec: lemma_decoders_succeed_together / lemma_decoders_agree):
            // one yields a frame iff the other does, and both consume the same number of bytes
            match (&o, &pr) {
                (Out::Frame(f, n), Ok(Ok((_, m)))) if n != m => return Some(Found { input: show(p), observed: format!("RespCodec consumed {} bytes ({}), RespParser {}", n, f, m), required: "both decoders consume the same frame".into() }),
                (Out::Frame(f, n), Ok(Err(e))) => return Some(Found { input: show(p), observed: format!("RespCodec decoded {} ({} bytes) but RespParser rejected the same bytes: {}", f, n, e), required: "the decoders succeed together".into() }),
                (Out::NeedMore, Ok(Ok((v, m)))) | (Out::Error, Ok(Ok((v, m)))) => return Some(Found { input: show(p), observed: format!("RespParser decoded {:?} ({} bytes) but RespCodec reported {}", v, m, if matches!(o, Out::NeedMore) { "need-more" } else { "a protocol error" }), required: "the decoders succeed together (a complete frame is never need-more)".into() }),
                _ => {}
            }
        }
        // prefix-stability: whole-stream frame vs every strict prefix and any tail
        if let (Out::Frame(f, n), _) = codec(&s) {
            for cut in 0..n {
                match codec(&s[..cut]).0 {
                    Out::NeedMore => {}
                    Out::Frame(g, m) => return Some(Found { input: format!("{} cut at {}", show(&s), cut), observed: format!("prefix already yields frame {} ({} bytes)", g, m), required: format!("need-more until the {} bytes of {} have arrived", n, f) }),
                    Out::Error => return Some(Found { input: format!("{} cut at {}", show(&s), cut), observed: "prefix reported a protocol error".into(), required: "need-more for a strict prefix of a valid frame".into() }),
                    Out::Panic(m) => return Some(Found { input: format!("{} cut at {}", show(&s), cut), observed: format!("panic: {}", m), required: "need-more".into() }),
                }
            }
            let mut t = s[..n].to_vec(); t.extend_from_slice(b"+TAIL\r\n");
            if let (Out::Frame(g, m), _) = codec(&t) { if g != f || m != n { return Some(Found { input: show(&t), observed: format!("{} ({} bytes)", g, m), required: format!("{} ({} bytes) whatever follows", f, n) }); } }
            else { return Some(Found { input: show(&t), observed: "no frame".into(), required: format!("frame {}", f) }); }
        }
    }
    None
}
